#!/usr/bin/env python3
"""Evaluates a behaviour-preserving change written by an independent sub-agent: the checks must stay silent.

  ./refac_eval.py <src-dir> <id> [--checks C02,C11]

<src-dir> holds patch.diff and meta.json. In a scratch worktree of /repo: the patch applies, the tree builds, the
suite passes; then the harness is built against the patched tree (a compile error of the harness = the harness
depends on an internal name the change touched) and the named quick checks run against it (VERIF_REPO).
A VIOLATION there is a false alarm of the machinery. The result is written to refactored/<id>/.
"""
import json, os, shutil, subprocess, sys, time
VERIF = os.path.dirname(os.path.abspath(__file__))
REPO = "/repo"
ENV = dict(os.environ, GOFLAGS="-mod=mod", GOPROXY="off")
FLAKY = ["TestTarget_CancelledRequestsHaveStatus499"]

def sh(cmd, cwd=None, env=None, timeout=3000):
    p = subprocess.run(cmd, shell=True, cwd=cwd, env=env or ENV, capture_output=True, text=True, timeout=timeout)
    return p.returncode, p.stdout + p.stderr

def main():
    src, rid = sys.argv[1], sys.argv[2]
    checks = None
    for i, a in enumerate(sys.argv):
        if a == "--checks":
            checks = sys.argv[i + 1].split(",")
    meta = json.load(open(os.path.join(src, "meta.json")))
    prop = meta.get("property", rid.split("-")[0])
    checks = checks or [prop]
    patch = os.path.abspath(os.path.join(src, "patch.diff"))
    rec = {"id": rid, "property": prop, "kind": meta.get("kind"), "summary": meta.get("summary"), "why_equivalent": meta.get("why_equivalent"), "verdicts": {}}
    wt = "/tmp/refaceval-%s" % rid
    sh("git -C %s worktree remove --force %s" % (REPO, wt))
    sh("git -C %s worktree add -q --detach %s HEAD" % (REPO, wt))
    try:
        rc, out = sh("git apply %s" % patch, cwd=wt)
        if rc != 0:
            rec["applies"] = False
            rec["why"] = out[-400:]
            return finish(rec, src, rid)
        rec["applies"] = True
        rec["builds"] = sh("go build ./... && gofmt -l internal | wc -l", cwd=wt)[0] == 0
        ok = False
        for attempt in range(3):
            rc, out = sh("go test -count=1 ./... 2>&1", cwd=wt)
            fails = [l for l in out.splitlines() if l.startswith("--- FAIL")]
            if rc == 0 or (fails and all(any(f in l for f in FLAKY) for l in fails)):
                ok = True
                break
        rec["suite_passes"] = ok
        env = dict(os.environ, VERIF_REPO=wt, VERIF_EVIDENCE_DIR="/var/tmp/vf-refac-evidence/" + rid, VERIF_REPLAY_DIR="/var/tmp/vf-refac-replays/" + rid)
        p = subprocess.run(["./check", "--setup"], cwd=VERIF, env=env, capture_output=True, text=True)
        rec["harness_builds"] = p.returncode == 0
        if p.returncode != 0:
            rec["harness_build_error"] = (p.stdout + p.stderr)[-1500:]
        else:
            for c in checks:
                t0 = time.time()
                p = subprocess.run(["./check", c, "--tier", "quick"], cwd=VERIF, env=env, capture_output=True, text=True)
                first = [l for l in p.stdout.splitlines() if l.startswith("violation found") or l.startswith("race report") or "regression replay fails" in l or l.startswith("inconclusive")]
                rec["verdicts"][c] = {"exit": p.returncode, "silent": p.returncode == 0, "wall_s": round(time.time() - t0, 1), "first": (first[0][:700] if first else "")}
        shutil.rmtree("/var/tmp/vf-refac-evidence/" + rid, ignore_errors=True)
    finally:
        sh("git -C %s worktree remove --force %s" % (REPO, wt))
        sh("git -C %s worktree prune" % REPO)
    return finish(rec, src, rid)

def finish(rec, src, rid):
    dst = os.path.join(VERIF, "refactored", rid)
    os.makedirs(dst, exist_ok=True)
    shutil.copy(os.path.join(src, "patch.diff"), os.path.join(dst, "patch.diff"))
    json.dump(rec, open(os.path.join(dst, "meta.json"), "w"), indent=1)
    v = {k: (x["silent"], x["exit"], x["wall_s"]) for k, x in rec.get("verdicts", {}).items()}
    print(rid, "applies=%s builds=%s suite=%s harness_builds=%s" % (rec.get("applies"), rec.get("builds"), rec.get("suite_passes"), rec.get("harness_builds")), v, (rec.get("harness_build_error") or "")[-300:].replace("\n", " "))
    return 0

if __name__ == "__main__":
    sys.exit(main())
