//go:build verif && go1.25

package server

// Shared engine for command histories: a JSON-able command language, the executor that maps it
// onto Router methods, the reference model of the control plane, and observers (list, routing
// matrix, state file).

import (
	"crypto/ecdsa"
	"crypto/elliptic"
	"crypto/rand"
	"crypto/tls"
	"crypto/x509"
	"crypto/x509/pkix"
	"encoding/json"
	"encoding/pem"
	"fmt"
	"math/big"
	"net/http"
	"os"
	"path/filepath"
	"reflect"
	"sort"
	"strings"
	"sync"
	"testing/synctest"
	"time"

	"pgregory.net/rapid"
)

type vfOpts struct {
	Strip          bool     `json:"strip,omitempty"`
	TLS            int      `json:"tls,omitempty"` // 0 off, 1 static certificate, 2 automatic
	NoRedirect     bool     `json:"no_redirect,omitempty"`
	ErrPages       int      `json:"err_pages,omitempty"` // 0 none, 1 dir with marked 503.html+404.html, 2 dir with 404.html only
	HealthPath     string   `json:"health_path,omitempty"`
	IntervalMs     int      `json:"interval_ms,omitempty"`
	ProbeTimeoutMs int      `json:"probe_timeout_ms,omitempty"`
	RespTimeoutMs  int      `json:"resp_timeout_ms,omitempty"`
	BufReq         bool     `json:"buf_req,omitempty"`
	BufResp        bool     `json:"buf_resp,omitempty"`
	MaxMem         int64    `json:"max_mem,omitempty"`
	MaxReq         int64    `json:"max_req,omitempty"`
	MaxResp        int64    `json:"max_resp,omitempty"`
	Forward        bool     `json:"forward,omitempty"`
	LogReq         []string `json:"log_req,omitempty"`
	LogResp        []string `json:"log_resp,omitempty"`
	CertOnly       bool     `json:"cert_only,omitempty"` // certificate and key paths given although TLS is off
}

type vfCmd struct {
	Op         string    `json:"op"` // deploy remove pause stop resume rollout-deploy rollout-set rollout-stop
	Svc        string    `json:"svc"`
	Spec       vfSvcSpec `json:"spec,omitempty"`
	Targets    []string  `json:"targets,omitempty"`
	Opt        vfOpts    `json:"opt,omitempty"`
	Pct        int       `json:"pct,omitempty"`
	Allow      []string  `json:"allow,omitempty"`
	Msg        string    `json:"msg,omitempty"`
	MaxPauseMs int       `json:"max_pause_ms,omitempty"` // 0 = the CLI default (30 s), -1 = an explicit --max-pause 0
	DrainMs    int       `json:"drain_ms,omitempty"`
	DeployMs   int       `json:"deploy_ms,omitempty"`
	Fault      string    `json:"fault,omitempty"` // deliberate error class, "" if the generator expects success
}

func (c vfCmd) String() string {
	b, _ := json.Marshal(c)
	return string(b)
}

// ---------------------------------------------------------------- fixtures on disk (once per process)

var vfFix struct {
	once                             sync.Once
	dir                              string
	cert, key                        string
	pages503, pages404, pagesBad     string
	pagesMissing, certMissing, acme string
}

const vfCustom503Marker = "VF-CUSTOM-503"
const vfCustom404Marker = "VF-CUSTOM-404"

func vfFixtures() {
	vfFix.once.Do(func() {
		base := os.Getenv("VF_SCRATCH")
		if base == "" {
			base = os.TempDir()
		}
		dir, err := os.MkdirTemp(base, "fixtures-")
		if err != nil {
			panic(err)
		}
		vfFix.dir = dir
		key, _ := ecdsa.GenerateKey(elliptic.P256(), rand.Reader)
		tmpl := x509.Certificate{SerialNumber: big.NewInt(1), Subject: pkix.Name{CommonName: "vf"}, NotBefore: time.Unix(0, 0),
			NotAfter: time.Unix(1<<33, 0), DNSNames: []string{"a.test"}}
		der, err := x509.CreateCertificate(rand.Reader, &tmpl, &tmpl, &key.PublicKey, key)
		if err != nil {
			panic(err)
		}
		kb, _ := x509.MarshalECPrivateKey(key)
		vfFix.cert = filepath.Join(dir, "cert.pem")
		vfFix.key = filepath.Join(dir, "key.pem")
		os.WriteFile(vfFix.cert, pem.EncodeToMemory(&pem.Block{Type: "CERTIFICATE", Bytes: der}), 0o644)
		os.WriteFile(vfFix.key, pem.EncodeToMemory(&pem.Block{Type: "EC PRIVATE KEY", Bytes: kb}), 0o600)
		vfFix.pages503 = filepath.Join(dir, "pages503")
		os.Mkdir(vfFix.pages503, 0o755)
		os.WriteFile(filepath.Join(vfFix.pages503, "503.html"), []byte("<html>"+vfCustom503Marker+"<p id=m>{{ .Message }}</p></html>"), 0o644)
		os.WriteFile(filepath.Join(vfFix.pages503, "404.html"), []byte("<html>"+vfCustom404Marker+"</html>"), 0o644)
		os.WriteFile(filepath.Join(vfFix.pages503, "502.html"), []byte("<html>VF-CUSTOM-502</html>"), 0o644)
		vfFix.pages404 = filepath.Join(dir, "pages404")
		os.Mkdir(vfFix.pages404, 0o755)
		os.WriteFile(filepath.Join(vfFix.pages404, "404.html"), []byte("<html>"+vfCustom404Marker+"</html>"), 0o644)
		vfFix.pagesBad = filepath.Join(dir, "pagesbad")
		os.Mkdir(vfFix.pagesBad, 0o755)
		os.WriteFile(filepath.Join(vfFix.pagesBad, "503.html"), []byte("<html>{{ .Message </html>"), 0o644)
		vfFix.pagesMissing = filepath.Join(dir, "no-such-dir")
		vfFix.certMissing = filepath.Join(dir, "no-such-cert.pem")
		vfFix.acme = filepath.Join(dir, "acme")
	})
}

func (o vfOpts) serviceOptions(spec vfSvcSpec, fault string) ServiceOptions {
	vfFixtures()
	so := ServiceOptions{Hosts: append([]string(nil), spec.Hosts...), PathPrefixes: append([]string(nil), spec.Prefixes...),
		TLSRedirect: !o.NoRedirect, StripPrefix: o.Strip}
	switch o.TLS {
	case 1:
		so.TLSEnabled = true
		so.TLSCertificatePath, so.TLSPrivateKeyPath = vfFix.cert, vfFix.key
	case 2:
		so.TLSEnabled = true
		so.ACMECachePath = vfFix.acme
	}
	if o.CertOnly && o.TLS == 0 {
		so.TLSCertificatePath, so.TLSPrivateKeyPath = vfFix.cert, vfFix.key
	}
	switch o.ErrPages {
	case 1:
		so.ErrorPagePath = vfFix.pages503
	case 2:
		so.ErrorPagePath = vfFix.pages404
	}
	switch fault {
	case "bad-cert":
		so.TLSEnabled = true
		so.TLSCertificatePath, so.TLSPrivateKeyPath = vfFix.certMissing, vfFix.key
	case "bad-pages":
		so.ErrorPagePath = vfFix.pagesBad
	case "missing-pages":
		so.ErrorPagePath = vfFix.pagesMissing
	case "tls-wildcard":
		so.TLSEnabled = true
		so.TLSCertificatePath, so.TLSPrivateKeyPath = "", ""
		so.ACMECachePath = vfFix.acme
	}
	so.Normalize() // the CLI normalises before sending
	return so
}

func (o vfOpts) targetOptions() TargetOptions {
	to := TargetOptions{
		HealthCheckConfig: HealthCheckConfig{Path: DefaultHealthCheckPath, Interval: time.Second, Timeout: 5 * time.Second},
		ResponseTimeout:   DefaultTargetTimeout, MaxMemoryBufferSize: DefaultMaxMemoryBufferSize,
		BufferRequests: o.BufReq, BufferResponses: o.BufResp, MaxRequestBodySize: o.MaxReq, MaxResponseBodySize: o.MaxResp,
		ForwardHeaders: o.Forward,
	}
	if o.HealthPath != "" {
		to.HealthCheckConfig.Path = o.HealthPath
	}
	if o.IntervalMs > 0 {
		to.HealthCheckConfig.Interval = vfMs(o.IntervalMs)
	}
	if o.ProbeTimeoutMs > 0 {
		to.HealthCheckConfig.Timeout = vfMs(o.ProbeTimeoutMs)
	}
	if o.RespTimeoutMs > 0 {
		to.ResponseTimeout = vfMs(o.RespTimeoutMs)
	}
	if o.MaxMem > 0 {
		to.MaxMemoryBufferSize = o.MaxMem
	}
	if len(o.LogReq) > 0 {
		to.LogRequestHeaders = append([]string(nil), o.LogReq...)
	}
	if len(o.LogResp) > 0 {
		to.LogResponseHeaders = append([]string(nil), o.LogResp...)
	}
	return to
}

func (o vfOpts) healthPath() string {
	if o.HealthPath != "" {
		return o.HealthPath
	}
	return DefaultHealthCheckPath
}

func vfDur(ms, def int) time.Duration {
	if ms <= 0 {
		ms = def
	}
	return vfMs(ms)
}

// vfExec issues one command against the router (synchronously).
func vfExec(w *vfWorld, r *Router, c vfCmd) vfCmdResult {
	if c.Opt.IntervalMs > 0 {
		w.noteInterval(vfMs(c.Opt.IntervalMs))
	}
	if c.MaxPauseMs > 0 {
		w.noteWait(vfMs(c.MaxPauseMs))
	}
	return w.runCmd(func() error {
		switch c.Op {
		case "deploy":
			return vfDeploy(r, c.Svc, c.Targets, c.Opt.serviceOptions(c.Spec, c.Fault), c.Opt.targetOptions(), vfDur(c.DeployMs, 3000), vfDur(c.DrainMs, 1000))
		case "remove":
			return vfRemove(r, c.Svc)
		case "pause":
			if c.MaxPauseMs < 0 {
				return vfPause(r, c.Svc, vfDur(c.DrainMs, 1000), 0)
			}
			return vfPause(r, c.Svc, vfDur(c.DrainMs, 1000), vfDur(c.MaxPauseMs, 30000))
		case "stop":
			return vfStop(r, c.Svc, vfDur(c.DrainMs, 1000), c.Msg)
		case "resume":
			return vfResume(r, c.Svc)
		case "rollout-deploy":
			return vfRolloutDeploy(r, c.Svc, c.Targets, vfDur(c.DeployMs, 3000), vfDur(c.DrainMs, 1000))
		case "rollout-set":
			return vfRolloutSet(r, c.Svc, c.Pct, c.Allow)
		case "rollout-stop":
			return vfRolloutStop(r, c.Svc)
		}
		panic("unknown op " + c.Op)
	})
}

// ---------------------------------------------------------------- reference model

type vfMSvc struct {
	Name       string
	Spec       vfSvcSpec
	Opt        vfOpts
	Active     []string
	Rollout    []string // nil = no rollout targets
	RolloutOpt vfOpts   // the options in force when the rollout targets were deployed
	HasSplit   bool
	Pct        int
	Allow      []string
	State      string // running paused stopped
	Msg        string
	MaxPauseMs int
}

type vfModel struct {
	Svcs map[string]*vfMSvc
}

func newVFModel() *vfModel { return &vfModel{Svcs: map[string]*vfMSvc{}} }

func (m *vfModel) clone() *vfModel {
	c := newVFModel()
	for k, v := range m.Svcs {
		cp := *v
		cp.Active = append([]string(nil), v.Active...)
		if v.Rollout != nil {
			cp.Rollout = append([]string{}, v.Rollout...)
		}
		cp.Allow = append([]string(nil), v.Allow...)
		c.Svcs[k] = &cp
	}
	return c
}

func (m *vfModel) specs() []vfSvcSpec {
	var out []vfSvcSpec
	for _, n := range vfSortedKeys(m.Svcs) {
		s := m.Svcs[n]
		out = append(out, vfSvcSpec{Name: s.Name, Hosts: s.Spec.Hosts, Prefixes: s.Spec.Prefixes})
	}
	return out
}

var vfTargetNameOK = func(s string) bool { // documented shape: host[:port], at least two characters
	if len(s) < 2 {
		return false
	}
	host, port, found := strings.Cut(s, ":")
	if found {
		if port == "" {
			return false
		}
		for _, ch := range port {
			if ch < '0' || ch > '9' {
				return false
			}
		}
	}
	if len(host) < 2 {
		return false
	}
	for i, ch := range host {
		ok := ch == '_' || (ch >= '0' && ch <= '9') || (ch >= 'a' && ch <= 'z') || (ch >= 'A' && ch <= 'Z')
		if i > 0 {
			ok = ok || ch == '-' || ch == '.' || ch == '+'
		}
		if !ok {
			return false
		}
	}
	return true
}

func vfTargetAlive(name string) bool { return !strings.HasPrefix(name, "dead") }

// apply returns the set of acceptable outcome classes ("ok" or error classes) and, when the outcome
// is "ok", has updated the model.
func (m *vfModel) apply(c vfCmd) []string {
	s := m.Svcs[c.Svc]
	switch c.Op {
	case "deploy":
		var errs []string
		switch c.Fault {
		case "bad-cert":
			errs = append(errs, "certificate")
		case "bad-pages", "missing-pages":
			errs = append(errs, "error-pages")
		case "tls-wildcard":
			errs = append(errs, "tls-wildcard")
		}
		if c.Opt.TLS == 2 && c.Fault == "" {
			for _, h := range c.Spec.Hosts {
				if strings.Contains(h, "*") {
					errs = append(errs, "tls-wildcard")
				}
			}
		}
		for _, t := range c.Targets {
			if !vfTargetNameOK(t) {
				errs = append(errs, "bad-target")
				break
			}
		}
		for _, t := range c.Targets {
			if vfTargetNameOK(t) && !vfTargetAlive(t) {
				errs = append(errs, "unhealthy")
				break
			}
		}
		spec := vfSvcSpec{Name: c.Svc, Hosts: c.Spec.Hosts, Prefixes: c.Spec.Prefixes}
		if vfConflict(m.specs(), spec) {
			errs = append(errs, "host-in-use")
		}
		if len(errs) > 0 {
			return errs
		}
		if s == nil {
			s = &vfMSvc{Name: c.Svc, State: "running"}
			m.Svcs[c.Svc] = s
		}
		s.Spec = spec
		s.Opt = c.Opt
		s.Active = append([]string(nil), c.Targets...)
		return []string{"ok"}
	case "remove":
		if s == nil {
			return []string{"not-found"}
		}
		delete(m.Svcs, c.Svc)
		return []string{"ok"}
	case "pause":
		if s == nil {
			return []string{"not-found"}
		}
		s.State, s.Msg, s.MaxPauseMs = "paused", "", c.MaxPauseMs
		if s.MaxPauseMs == 0 {
			s.MaxPauseMs = 30000
		}
		if s.MaxPauseMs < 0 {
			s.MaxPauseMs = 0 // requests are not held at all: 504 at once
		}
		return []string{"ok"}
	case "stop":
		if s == nil {
			return []string{"not-found"}
		}
		s.State, s.Msg = "stopped", c.Msg
		return []string{"ok"}
	case "resume":
		if s == nil {
			return []string{"not-found"}
		}
		s.State, s.Msg = "running", ""
		return []string{"ok"}
	case "rollout-deploy":
		if s == nil {
			return []string{"not-found"}
		}
		for _, t := range c.Targets {
			if !vfTargetNameOK(t) {
				return []string{"bad-target"}
			}
		}
		for _, t := range c.Targets {
			if !vfTargetAlive(t) {
				return []string{"unhealthy"}
			}
		}
		s.Rollout = append([]string{}, c.Targets...)
		s.RolloutOpt = s.Opt
		return []string{"ok"}
	case "rollout-set":
		if s == nil {
			return []string{"not-found"}
		}
		if s.Rollout == nil {
			return []string{"no-rollout"}
		}
		s.HasSplit, s.Pct, s.Allow = true, c.Pct, append([]string(nil), c.Allow...)
		return []string{"ok"}
	case "rollout-stop":
		if s == nil {
			return []string{"not-found"}
		}
		s.HasSplit, s.Pct, s.Allow = false, 0, nil
		return []string{"ok"}
	}
	panic("unknown op " + c.Op)
}

// targetLevel: the part of the options that lives in each target (set when the target is created).
func (o vfOpts) targetLevel() vfOpts {
	return vfOpts{HealthPath: o.HealthPath, IntervalMs: o.IntervalMs, ProbeTimeoutMs: o.ProbeTimeoutMs, RespTimeoutMs: o.RespTimeoutMs,
		BufReq: o.BufReq, BufResp: o.BufResp, MaxMem: o.MaxMem, MaxReq: o.MaxReq, MaxResp: o.MaxResp, Forward: o.Forward, LogReq: o.LogReq, LogResp: o.LogResp}
}

// staleRolloutOptions: services whose rollout targets were created under other target-level options than the
// service has now (a redeploy changed them): the running proxy keeps the old ones in those targets.
func (m *vfModel) staleRolloutOptions() []string {
	var out []string
	for _, n := range vfSortedKeys(m.Svcs) {
		s := m.Svcs[n]
		if s.Rollout != nil && !reflect.DeepEqual(s.RolloutOpt.targetLevel(), s.Opt.targetLevel()) {
			out = append(out, n)
		}
	}
	return out
}

// effTLS: the TLS settings in force for a service: its own if it serves the root path, else those of
// the service on the root path of its (first) host, else off (redirect default on).
func (m *vfModel) effTLS(s *vfMSvc) (enabled, redirect bool) {
	for _, p := range s.Spec.normPrefixes() {
		if p == "/" {
			return s.Opt.TLS != 0, !s.Opt.NoRedirect
		}
	}
	host := s.Spec.normHosts()[0]
	rootName, _ := vfRefRoute(m.specs(), host, "/")
	if rs := m.Svcs[rootName]; rs != nil {
		if rs == s {
			return s.Opt.TLS != 0, !s.Opt.NoRedirect
		}
		return m.effTLS(rs)
	}
	return false, true
}

// tlsAmbiguous: the service's hosts disagree about the root service's TLS settings (outside the
// domain in which "the root service of its host" is well defined per service).
func (m *vfModel) tlsAmbiguous(s *vfMSvc) bool {
	for _, p := range s.Spec.normPrefixes() {
		if p == "/" {
			return false
		}
	}
	type pair struct{ a, b bool }
	var first *pair
	for _, h := range s.Spec.normHosts() {
		rootName, _ := vfRefRoute(m.specs(), h, "/")
		cur := pair{false, true}
		if rs := m.Svcs[rootName]; rs != nil && rs != s {
			e, r := m.effTLS(rs)
			cur = pair{e, r}
		}
		if first == nil {
			first = &cur
		} else if *first != cur {
			return true
		}
	}
	return false
}

type vfListRow struct{ Host, Path, Target, State string; TLS bool }

func (m *vfModel) list() map[string]vfListRow {
	out := map[string]vfListRow{}
	for n, s := range m.Svcs {
		host := strings.Join(s.Spec.Hosts, ",")
		if host == "" {
			host = "*"
		}
		tlsOn, _ := m.effTLS(s)
		out[n] = vfListRow{Host: host, Path: strings.Join(s.Spec.normPrefixes(), ","), Target: strings.Join(s.Active, ","), State: s.State, TLS: tlsOn}
	}
	return out
}

func vfRealList(r *Router) map[string]vfListRow {
	out := map[string]vfListRow{}
	for n, d := range vfList(r) {
		out[n] = vfListRow{Host: d.Host, Path: d.Path, Target: d.Target, State: d.State, TLS: d.TLS}
	}
	return out
}

// vfExpect describes what must happen to one request.
type vfExpect struct {
	Kind    string   // 404 | redirect | tls-refused | stopped | held | health-ok | forward | no-healthy
	Svc     string
	Targets []string // for forward: the set one of which must answer
	Msg     string   // for stopped
	Prefix  string
}

type vfReqSpec struct {
	Host   string `json:"host"`
	Path   string `json:"path"`
	TLS    bool   `json:"tls,omitempty"`
	Cookie string `json:"cookie,omitempty"` // value of the kamal-rollout cookie, "" = none
	Method string `json:"method,omitempty"`
}

func (m *vfModel) expect(rq vfReqSpec, inRollout func(s *vfMSvc, cookie string) bool) vfExpect {
	name, prefix := vfRefRoute(m.specs(), rq.Host, rq.Path)
	s := m.Svcs[name]
	if s == nil {
		return vfExpect{Kind: "404"}
	}
	e := vfExpect{Svc: name, Prefix: prefix}
	tlsOn, redirect := m.effTLS(s)
	if tlsOn && redirect && !rq.TLS {
		e.Kind = "redirect"
		return e
	}
	if !tlsOn && rq.TLS {
		e.Kind = "tls-refused"
		return e
	}
	method := rq.Method
	if method == "" {
		method = "GET"
	}
	if s.State != "running" && method == "GET" && rq.Path == s.Opt.healthPath() {
		e.Kind = "health-ok"
		return e
	}
	switch s.State {
	case "stopped":
		e.Kind, e.Msg = "stopped", s.Msg
		return e
	case "paused":
		e.Kind = "held"
		if s.MaxPauseMs == 0 {
			e.Kind = "status-504"
		}
		return e
	}
	e.Kind = "forward"
	e.Targets = s.Active
	if s.HasSplit && s.Rollout != nil && rq.Cookie != "" && inRollout != nil && inRollout(s, rq.Cookie) {
		e.Targets = s.Rollout
	}
	return e
}

func (rq vfReqSpec) build() *http.Request {
	method := rq.Method
	if method == "" {
		method = "GET"
	}
	req := vfNewRequest(method, rq.Host, rq.Path, nil, nil)
	if rq.TLS {
		req.TLS = &tls.ConnectionState{}
	}
	if rq.Cookie != "" {
		req.AddCookie(&http.Cookie{Name: RolloutCookieName, Value: rq.Cookie})
	}
	return req
}

// vfObserve sends the request and classifies the outcome the same way vfExpect does.
// Held requests are left pending (they end at resume / max-pause / teardown).
func vfObserve(w *vfWorld, h http.Handler, rq vfReqSpec) (kind, target string, resp *vfResp) {
	p := w.goDo(h, rq.build())
	synctest.Wait()
	if !p.finished() {
		return "held", "", nil
	}
	return vfClassify(p.resp)
}

func vfClassify(r *vfResp) (kind, target string, resp *vfResp) {
	switch {
	case r.Panicked != "":
		return "panic:" + r.Panicked, "", r
	case r.Status == 200 && r.Target != "":
		return "forward", r.Target, r
	case r.Status == 200 && r.Target == "" && len(r.Body) == 0:
		return "health-ok", "", r
	case r.Status == 404:
		return "404", "", r
	case r.Status == 301:
		return "redirect", "", r
	case r.Status == 503:
		return "503", "", r
	}
	return fmt.Sprintf("status-%d", r.Status), "", r
}

// vfObserveExpecting is vfObserve without the goroutine when the model does not expect the request to
// be held (a request that is wrongly held then shows up as a bubble deadlock).
func vfObserveExpecting(w *vfWorld, h http.Handler, rq vfReqSpec, e vfExpect) (kind, target string, resp *vfResp) {
	if e.Kind == "held" {
		return vfObserve(w, h, rq)
	}
	return vfClassify(w.do(h, rq.build()))
}

// vfMatches compares an observation with an expectation; 503 is refined by the caller when needed.
func vfMatches(e vfExpect, kind, target string) bool {
	switch e.Kind {
	case "forward":
		if kind != "forward" {
			return false
		}
		for _, t := range e.Targets {
			if t == target {
				return true
			}
		}
		return false
	case "stopped", "tls-refused":
		return kind == "503"
	default:
		return kind == e.Kind
	}
}

// ---------------------------------------------------------------- state file (independent reader)

type vfSavedSvc struct {
	Name    string   `json:"name"`
	Active  []string `json:"active_targets"`
	Rollout []string `json:"rollout_targets"`
	Options struct {
		Hosts    []string `json:"hosts"`
		Prefixes []string `json:"path_prefixes"`
		TLS      bool     `json:"tls_enabled"`
	} `json:"options"`
	Pause *struct {
		State     int    `json:"state"`
		Msg       string `json:"stop_message"`
		FailAfter int64  `json:"fail_after"`
	} `json:"pause_controller"`
	RolloutCtl *struct {
		Pct   int      `json:"percentage"`
		Allow []string `json:"allowlist"`
	} `json:"rollout_controller"`
}

// vfReadState parses a state file; ok=false when it is missing; err when it is not one complete JSON snapshot.
func vfReadState(path string) (svcs map[string]vfSavedSvc, exists bool, err error) {
	b, err := os.ReadFile(path)
	if err != nil {
		if os.IsNotExist(err) {
			return nil, false, nil
		}
		return nil, false, err
	}
	return vfParseState(b)
}

func vfParseState(b []byte) (map[string]vfSavedSvc, bool, error) {
	var list []vfSavedSvc
	if err := json.Unmarshal(b, &list); err != nil {
		return nil, true, fmt.Errorf("state file is not a complete snapshot (%d bytes): %v", len(b), err)
	}
	out := map[string]vfSavedSvc{}
	for _, s := range list {
		out[s.Name] = s
	}
	return out, true, nil
}

// summary reduces a configuration to comparable strings, one per service.
func (m *vfModel) summary() map[string]string {
	out := map[string]string{}
	for n, s := range m.Svcs {
		st := map[string]int{"running": 0, "paused": 1, "stopped": 2}[s.State]
		split := "none"
		if s.HasSplit {
			split = fmt.Sprintf("%d%v", s.Pct, s.Allow)
		}
		fa := int64(0)
		if s.State == "paused" {
			fa = int64(vfMs(s.MaxPauseMs))
		}
		out[n] = fmt.Sprintf("hosts=%v prefixes=%v active=%v rollout=%v state=%d msg=%q failafter=%d split=%s",
			s.Spec.normHosts(), s.Spec.normPrefixes(), s.Active, append([]string{}, s.Rollout...), st, s.Msg, fa, split)
	}
	return out
}

func vfSavedSummary(saved map[string]vfSavedSvc) map[string]string {
	out := map[string]string{}
	for n, s := range saved {
		st, msg, fa := 0, "", int64(0)
		if s.Pause != nil {
			st, msg = s.Pause.State, s.Pause.Msg
			if st == 1 {
				fa = s.Pause.FailAfter
			}
		}
		split := "none"
		if s.RolloutCtl != nil {
			split = fmt.Sprintf("%d%v", s.RolloutCtl.Pct, s.RolloutCtl.Allow)
		}
		out[n] = fmt.Sprintf("hosts=%v prefixes=%v active=%v rollout=%v state=%d msg=%q failafter=%d split=%s",
			s.Options.Hosts, s.Options.Prefixes, s.Active, append([]string{}, s.Rollout...), st, msg, fa, split)
	}
	return out
}

func vfDiffMaps(a, b map[string]string) string {
	keys := map[string]bool{}
	for k := range a {
		keys[k] = true
	}
	for k := range b {
		keys[k] = true
	}
	var ks []string
	for k := range keys {
		ks = append(ks, k)
	}
	sort.Strings(ks)
	var sb strings.Builder
	for _, k := range ks {
		if a[k] != b[k] {
			fmt.Fprintf(&sb, "  %s:\n    want %s\n    got  %s\n", k, a[k], b[k])
		}
	}
	return sb.String()
}

// ---------------------------------------------------------------- generators

var (
	vfHostPool   = []string{"a.test", "b.test", "x.a.test", "*.test", "*.a.test"}
	vfPrefixPool = []string{"/", "/api", "/api/v1", "/app", "api/", "/apiary"}
	vfTargetPool = []string{"ta0:80", "ta1:80", "ta2:80", "ta3:80", "ta4:80", "ta5:80", "ta6:80", "ta7:80"}
	vfSvcNames   = []string{"s0", "s1", "s2", "s3"}
	vfReqHosts   = []string{"", "a.test", "b.test", "x.a.test", "y.a.test", "c.test", "z.y.test", "other", "a.test:8080"}
	vfReqPaths   = []string{"/", "/api", "/api/", "/apix", "/api/v1", "/api/v1/z", "/app/q", "/apiary", "/zz", "/up"}
)

func vfGenSpec(t *rapid.T, name string) vfSvcSpec {
	s := vfSvcSpec{Name: name}
	nh := rapid.IntRange(0, 2).Draw(t, "nhosts")
	for i := 0; i < nh; i++ {
		h := rapid.SampledFrom(vfHostPool).Draw(t, "host")
		if !vfContains(s.Hosts, h) {
			s.Hosts = append(s.Hosts, h)
		}
	}
	np := rapid.IntRange(0, 2).Draw(t, "nprefixes")
	for i := 0; i < np; i++ {
		p := rapid.SampledFrom(vfPrefixPool).Draw(t, "prefix")
		dup := false
		for _, q := range s.Prefixes {
			if vfNormPrefix(q) == vfNormPrefix(p) {
				dup = true
			}
		}
		if !dup {
			s.Prefixes = append(s.Prefixes, p)
		}
	}
	return s
}

func vfContains(a []string, x string) bool {
	for _, y := range a {
		if x == y {
			return true
		}
	}
	return false
}

func vfGenTargets(t *rapid.T, max int) []string {
	n := rapid.IntRange(1, max).Draw(t, "ntargets")
	var out []string
	for i := 0; i < n; i++ {
		x := rapid.SampledFrom(vfTargetPool).Draw(t, "target")
		if !vfContains(out, x) {
			out = append(out, x)
		}
	}
	return out
}

// vfFreeSpec draws a spec that does not conflict with the model (construction, bounded retries, then a
// unique fallback host).
func vfFreeSpec(t *rapid.T, m *vfModel, name string) vfSvcSpec {
	// a companion: below a path of the hosts of a service that has TLS on (its TLS settings then follow that service)
	var roots []*vfMSvc
	for _, n := range vfSortedKeys(m.Svcs) {
		if o := m.Svcs[n]; n != name && o.Opt.TLS != 0 && len(o.Spec.Hosts) > 0 {
			roots = append(roots, o)
		}
	}
	if len(roots) > 0 && rapid.IntRange(0, 2).Draw(t, "companion") == 0 {
		root := rapid.SampledFrom(roots).Draw(t, "companion-of")
		s := vfSvcSpec{Name: name, Hosts: append([]string(nil), root.Spec.Hosts...), Prefixes: []string{rapid.SampledFrom([]string{"/api", "/app", "/api/v1"}).Draw(t, "companion-prefix")}}
		if !vfConflict(m.specs(), s) {
			return s
		}
	}
	for i := 0; i < 4; i++ {
		s := vfGenSpec(t, name)
		if !vfConflict(m.specs(), s) {
			return s
		}
	}
	return vfSvcSpec{Name: name, Hosts: []string{name + ".own.test"}, Prefixes: nil}
}

func vfEqualJSON(a, b any) bool {
	x, _ := json.Marshal(a)
	y, _ := json.Marshal(b)
	return string(x) == string(y)
}

var _ = reflect.DeepEqual

// vfCheckMatrix compares the router's behaviour over hosts x paths with the model. Requests use the
// scheme the owning service's effective TLS setting lets through.
func vfCheckMatrix(w *vfWorld, r http.Handler, m *vfModel, res *vfResult, hosts, paths []string, ctx string) bool {
	return vfCheckMatrixSlice(w, r, m, res, hosts, paths, ctx, 1, 0)
}

// vfCheckMatrixSlice checks every mod-th cell of the matrix, starting at phase (the full matrix for mod 1).
func vfCheckMatrixSlice(w *vfWorld, r http.Handler, m *vfModel, res *vfResult, hosts, paths []string, ctx string, mod, phase int) bool {
	for i, h := range hosts {
		for j, p := range paths {
			if (i+j+phase)%mod != 0 {
				continue
			}
			rq := vfReqSpec{Host: h, Path: p}
			if name, _ := vfRefRoute(m.specs(), h, p); name != "" {
				rq.TLS, _ = m.effTLS(m.Svcs[name])
			}
			e := m.expect(rq, nil)
			kind, target, resp := vfObserveExpecting(w, r, rq, e)
			if !vfMatches(e, kind, target) {
				res.failf("matrix-mismatch", "%s: request host=%q path=%q tls=%v: expected %+v, observed %s target=%q (%v); model=%v",
					ctx, h, p, rq.TLS, e, kind, target, resp, m.summary())
				return false
			}
		}
	}
	return true
}

func vfCheckList(r *Router, m *vfModel, res *vfResult, ctx string) bool {
	got, want := vfRealList(r), m.list()
	if !reflect.DeepEqual(got, want) {
		res.failf("list-mismatch", "%s: list differs:\n  want %+v\n  got  %+v", ctx, want, got)
		return false
	}
	return true
}

func vfClassOK(acceptable []string, got string) bool {
	for _, a := range acceptable {
		if a == got {
			return true
		}
	}
	return false
}
