//go:build verif && go1.25

package server

// C05 — no two services ever own the same (host, prefix); racing deploys: exactly one wins.

import (
	"fmt"
	"runtime"
	"sort"
	"sync/atomic"
	"testing"
	"testing/synctest"

	"pgregory.net/rapid"
)

type c05Plan struct {
	Cmds     []vfCmd   `json:"cmds"`
	RaceN    int       `json:"race_n"` // 0 = no racing step
	RaceSpec vfSvcSpec `json:"race_spec"`
}

func c05Gen(t *rapid.T) c05Plan {
	p := c05Plan{}
	m := newVFModel()
	n := rapid.IntRange(3, 14).Draw(t, "ncmds")
	for i := 0; i < n; i++ {
		name := rapid.SampledFrom(vfSvcNames).Draw(t, "svc")
		var c vfCmd
		switch k := rapid.IntRange(0, 9).Draw(t, "kind"); {
		case k <= 6: // deploy or redeploy, bindings drawn freely (conflicts arise on purpose)
			c = vfCmd{Op: "deploy", Svc: name, Spec: vfGenSpec(t, name), Targets: vfGenTargets(t, 2)}
		default:
			c = vfCmd{Op: "remove", Svc: name}
		}
		m.apply(c)
		p.Cmds = append(p.Cmds, c)
	}
	if rapid.IntRange(0, 2).Draw(t, "race") > 0 {
		p.RaceN = rapid.IntRange(2, 6).Draw(t, "race-n")
		p.RaceSpec = vfGenSpec(t, "race")
	}
	return p
}

func c05Run(t *testing.T, p c05Plan) (res vfResult) {
	vfBubble(t, func(w *vfWorld) {
		for _, tn := range vfTargetPool {
			w.target(tn)
		}
		r := w.newRouter("r")
		m := newVFModel()
		rejected, moved := 0, 0
		for i, c := range p.Cmds {
			before := vfOwners(m.specs())
			want := m.apply(c)
			got := vfExec(w, r, c)
			synctest.Wait()
			ctx := fmt.Sprintf("step %d %s", i, c)
			if got.Panicked != "" {
				res.failf("panic", "%s: panicked: %s", ctx, got.Panicked)
				return
			}
			if !vfClassOK(want, vfErrClass(got.Err)) {
				res.failf("wrong-result", "%s: result %q, model accepts %v", ctx, vfErrClass(got.Err), want)
				return
			}
			if vfErrClass(got.Err) == "host-in-use" {
				rejected++
			}
			after := vfOwners(m.specs())
			for k, v := range after {
				if b, ok := before[k]; ok && b != v {
					moved++
				}
			}
			for k, v := range before {
				if a, ok := after[k]; !ok || a != v {
					moved++
				}
			}
			mod := 3
			if i == len(p.Cmds)-1 {
				mod = 1
			}
			if !vfCheckList(r, m, &res, ctx) || !vfCheckMatrixSlice(w, r, m, &res, vfReqHosts, vfReqPaths, ctx, mod, i) {
				return
			}
		}
		if p.RaceN > 0 {
			// N different new services claim the same pairs at once.
			spec := p.RaceSpec
			blocked := vfConflict(m.specs(), vfSvcSpec{Name: "race-probe", Hosts: spec.Hosts, Prefixes: spec.Prefixes})
			var pend []*vfPendingCmd
			var cmds []vfCmd
			for i := 0; i < p.RaceN; i++ {
				c := vfCmd{Op: "deploy", Svc: fmt.Sprintf("race%d", i), Spec: vfSvcSpec{Hosts: spec.Hosts, Prefixes: spec.Prefixes},
					Targets: []string{vfTargetPool[i%len(vfTargetPool)]}}
				cmds = append(cmds, c)
			}
			// every racer is held just before it installs its service, then all are let go at once: their
			// availability checks and installs contend as closely as the code allows
			sc := newVFSched(w, nil, nil)
			sc.spinPoint = "deploy.before-install"
			var ended atomic.Int32
			for i, c := range cmds {
				c := c
				pc := &vfPendingCmd{done: make(chan struct{})}
				pend = append(pend, pc)
				sc.spawn(fmt.Sprintf("racer%d", i), func() {
					defer close(pc.done)
					defer ended.Add(1)
					pc.res = vfExec(w, r, c)
				})
			}
			// wait (real time, bounded) until every racer spins at the barrier or has ended, then let them all go
			for spins := 0; int(sc.spinArrived.Load()+ended.Load()) < len(cmds) && spins < 2000000; spins++ {
				runtime.Gosched()
			}
			sc.spinGo.Store(true)
			for _, pc := range pend {
				<-pc.done
			}
			sc.stop()
			vfCurSched.Store(nil)
			synctest.Wait()
			winners := []int{}
			for i, pc := range pend {
				if pc.res.Panicked != "" {
					res.failf("panic", "racing deploy %d panicked: %s", i, pc.res.Panicked)
					return
				}
				switch cls := vfErrClass(pc.res.Err); cls {
				case "ok":
					winners = append(winners, i)
				case "host-in-use":
				default:
					res.failf("race-wrong-result", "racing deploy %d: unexpected result %q", i, cls)
					return
				}
			}
			wantWinners := 1
			if blocked {
				wantWinners = 0
			}
			if len(winners) != wantWinners {
				res.failf("race-winners", "racing deploys for %+v: %d succeeded, want exactly %d (results %v)", spec, len(winners), wantWinners, c05Classes(pend))
				return
			}
			for _, i := range winners {
				m.apply(cmds[i])
			}
			if !vfCheckList(r, m, &res, "after race") || !vfCheckMatrix(w, r, m, &res, vfReqHosts, vfReqPaths, "after race") {
				return
			}
			res.label("race")
			if blocked {
				res.label("race:pair-already-owned")
			}
		}
		res.NonTrivial = rejected > 0 && moved > 0
		if rejected > 0 {
			res.label("rejected-claim")
		}
		if moved > 0 {
			res.label("pair-changed-owner")
		}
	})
	return res
}

func c05Classes(pend []*vfPendingCmd) []string {
	var out []string
	for _, pc := range pend {
		out = append(out, vfErrClass(pc.res.Err))
	}
	sort.Strings(out)
	return out
}

func TestVF_C05(t *testing.T) {
	vfCheck(t, vfProp[c05Plan]{id: "C05", gen: c05Gen, run: c05Run})
}
