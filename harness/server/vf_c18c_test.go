//go:build verif && go1.25

package server

// C18 (c) — lock stress: deadlocks whose window is a few dozen nanoseconds (a recursive read lock that a
// writer slips into, two locks taken in opposite orders) do not show in the operation-list layer within its
// budget. Here a few goroutines repeat state-changing commands on the same services as fast as they can, for
// a fixed number of rounds, while others keep taking snapshots, listing and routing requests. The oracle is
// the driver's: the case must end; if it does not, the test deadline's goroutine dump shows goroutines
// blocked on sync locks inside kamal-proxy frames, which is reported as the deadlock. Panics are violations too.

import (
	"fmt"
	"sync"
	"testing"
	"testing/synctest"
	"time"

	"pgregory.net/rapid"
)

type c18cPlan struct {
	Togglers []string `json:"togglers"` // each: the service one goroutine keeps pausing / stopping / resuming
	Savers   []string `json:"savers"`   // each: rollout-set | list | redeploy | request | rollout-stop-set
	Rounds   int      `json:"rounds"`
}

func c18cGen(t *rapid.T) c18cPlan {
	p := c18cPlan{Rounds: rapid.SampledFrom([]int{150, 300, 500}).Draw(t, "rounds")}
	for i, n := 0, rapid.IntRange(1, 3).Draw(t, "togglers"); i < n; i++ {
		p.Togglers = append(p.Togglers, rapid.SampledFrom([]string{"s0", "s0", "s1"}).Draw(t, "svc"))
	}
	for i, n := 0, rapid.IntRange(1, 4).Draw(t, "savers"); i < n; i++ {
		p.Savers = append(p.Savers, rapid.SampledFrom([]string{"rollout-set", "rollout-set", "list", "redeploy", "request", "rollout-stop-set"}).Draw(t, "saver"))
	}
	return p
}

func c18cRun(t *testing.T, p c18cPlan) (res vfResult) {
	vfBubble(t, func(w *vfWorld) {
		vfSetupWorldTargets(w)
		r := w.newRouter("r")
		to := vfFastTargetOptions()
		to.HealthCheckConfig.Interval = time.Hour
		w.noteInterval(time.Hour)
		for i, svc := range []string{"s0", "s1", "s2"} {
			so := ServiceOptions{Hosts: []string{svc + ".test"}, TLSRedirect: true}
			so.Normalize()
			if err := vfDeploy(r, svc, []string{vfActivePool[i%len(vfActivePool)]}, so, to, 2*time.Second, 10*time.Millisecond); err != nil {
				res.failf("setup-failed", "deploy %s: %v", svc, err)
				return
			}
		}
		if err := vfRolloutDeploy(r, "s2", []string{vfRolloutPool[0]}, 2*time.Second, 10*time.Millisecond); err != nil {
			res.failf("setup-failed", "rollout deploy: %v", err)
			return
		}
		synctest.Wait()
		var mu sync.Mutex
		var panics []string
		guard := func(who string, fn func()) {
			defer func() {
				if rec := recover(); rec != nil {
					mu.Lock()
					panics = append(panics, fmt.Sprintf("%s: %v", who, rec))
					mu.Unlock()
				}
			}()
			fn()
		}
		var wg sync.WaitGroup
		stop := make(chan struct{})
		for i, svc := range p.Togglers {
			wg.Add(1)
			go func() {
				defer wg.Done()
				for k := 0; k < p.Rounds; k++ {
					guard(fmt.Sprintf("toggler %d", i), func() {
						switch k % 4 {
						case 0, 2:
							vfPause(r, svc, time.Millisecond, time.Second)
						case 1:
							vfResume(r, svc)
						case 3:
							vfStop(r, svc, time.Millisecond, "m")
						}
					})
				}
				guard("toggler", func() { vfResume(r, svc) })
			}()
		}
		var swg sync.WaitGroup
		for i, kind := range p.Savers {
			swg.Add(1)
			go func() {
				defer swg.Done()
				for k := 0; ; k++ {
					select {
					case <-stop:
						return
					default:
					}
					guard(fmt.Sprintf("saver %d (%s)", i, kind), func() {
						switch kind {
						case "rollout-set":
							vfRolloutSet(r, "s2", k%101, nil)
						case "rollout-stop-set":
							if k%2 == 0 {
								vfRolloutStop(r, "s2")
							} else {
								vfRolloutSet(r, "s2", 50, []string{"v"})
							}
						case "list":
							vfList(r)
						case "redeploy":
							so := ServiceOptions{Hosts: []string{"s2.test"}, TLSRedirect: true}
							so.Normalize()
							vfDeploy(r, "s2", []string{vfActivePool[(2+k)%len(vfActivePool)]}, so, to, 2*time.Second, time.Millisecond)
						case "request":
							w.do(r, vfNewRequest("GET", "s2.test", "/x", &vfCtl{}, nil))
						}
					})
				}
			}()
		}
		wg.Wait()
		close(stop)
		swg.Wait()
		synctest.Wait()
		if len(panics) > 0 {
			res.failf("panic", "%d panic(s): %v", len(panics), panics)
			return
		}
		// still alive
		vfList(r)
		if rp := w.do(r, vfNewRequest("GET", "s2.test", "/x", &vfCtl{}, nil)); rp.Status != 200 {
			res.failf("dead-after-stress", "a request after the stress phase got %v", rp)
			return
		}
		res.NonTrivial = true
		res.label(fmt.Sprintf("togglers:%d savers:%d", len(p.Togglers), len(p.Savers)))
	})
	return res
}

func TestVF_C18_LockStress(t *testing.T) {
	vfCheck(t, vfProp[c18cPlan]{id: "C18", gen: c18cGen, run: c18cRun, journal: true})
}
