//go:build verif && go1.25

package server

// C04 — routing: exact host, then wildcard, then default; longest prefix on a segment
// boundary; independent of command order, detours and restart.

import (
	"fmt"
	"net/http"
	"net/http/httptest"
	"net/url"
	"strings"
	"testing"
	"testing/synctest"
	"time"

	"pgregory.net/rapid"
)

type c04Req struct {
	Host string `json:"host"`
	Path string `json:"path"`
}

type c04Plan struct {
	Services []vfSvcSpec `json:"services"`
	Order2   []int       `json:"order2"`  // second router deploys in this order
	Detour   int         `json:"detour"`  // 0 none, 1 deploy+remove of an extra service first, 2 redeploy with other bindings and back
	DetourOn int         `json:"detour_on"`
	Restart  bool        `json:"restart"` // third router restored from the first router's state file
	Requests []c04Req    `json:"requests"`
}

var (
	c04Labels   = []string{"a", "b", "ab", "x"}
	c04Segments = []string{"api", "apiary", "v1", "a", "ap"}
)

func c04GenHost(t *rapid.T, label string) string {
	n := rapid.IntRange(1, 3).Draw(t, label+"-depth")
	parts := make([]string, n)
	for i := range parts {
		parts[i] = rapid.SampledFrom(c04Labels).Draw(t, label)
	}
	return strings.Join(parts, ".")
}

func c04GenPrefix(t *rapid.T) string {
	n := rapid.IntRange(0, 3).Draw(t, "prefix-depth")
	parts := make([]string, n)
	for i := range parts {
		parts[i] = rapid.SampledFrom(c04Segments).Draw(t, "seg")
	}
	p := strings.Join(parts, "/")
	switch rapid.IntRange(0, 3).Draw(t, "prefix-form") {
	case 0:
		return "/" + p
	case 1:
		return p
	case 2:
		return "/" + p + "/"
	}
	return p + "/"
}

func c04GenServices(t *rapid.T, maxN int) []vfSvcSpec {
	n := rapid.IntRange(1, maxN).Draw(t, "nservices")
	owned := map[[2]string]bool{}
	var out []vfSvcSpec
	for i := 0; i < n; i++ {
		s := vfSvcSpec{Name: fmt.Sprintf("s%d", i)}
		nh := rapid.IntRange(0, 3).Draw(t, "nhosts")
		for j := 0; j < nh; j++ {
			h := c04GenHost(t, "host")
			switch rapid.IntRange(0, 9).Draw(t, "wild") {
			case 0, 1, 2:
				h = "*." + h
			case 3: // an IP literal as the bound host
				h = rapid.SampledFrom([]string{"::1", "[::1]", "127.0.0.1"}).Draw(t, "ip-host")
			}
			s.Hosts = append(s.Hosts, h)
		}
		np := rapid.IntRange(0, 3).Draw(t, "nprefixes")
		for j := 0; j < np; j++ {
			s.Prefixes = append(s.Prefixes, c04GenPrefix(t))
		}
		// construction instead of rejection: drop the pairs somebody else owns already
		s = c04Dedup(s, owned)
		if s.Name == "" {
			continue
		}
		for _, h := range s.normHosts() {
			for _, p := range s.normPrefixes() {
				owned[[2]string{h, p}] = true
			}
		}
		out = append(out, s)
	}
	if len(out) == 0 {
		out = []vfSvcSpec{{Name: "s0"}}
	}
	return out
}

// c04Dedup removes hosts (then prefixes) until the spec claims no owned pair and lists nothing twice.
func c04Dedup(s vfSvcSpec, owned map[[2]string]bool) vfSvcSpec {
	uniq := func(in []string, norm func(string) string) []string {
		seen := map[string]bool{}
		var out []string
		for _, x := range in {
			k := norm(x)
			if !seen[k] {
				seen[k] = true
				out = append(out, x)
			}
		}
		return out
	}
	s.Hosts = uniq(s.Hosts, func(x string) string { return x })
	s.Prefixes = uniq(s.Prefixes, vfNormPrefix)
	for {
		clash := false
		for _, h := range s.normHosts() {
			for _, p := range s.normPrefixes() {
				if owned[[2]string{h, p}] {
					clash = true
				}
			}
		}
		if !clash {
			return s
		}
		// drop the last prefix, or failing that the last host; an empty list means "/" resp. default
		if len(s.Prefixes) > 1 {
			s.Prefixes = s.Prefixes[:len(s.Prefixes)-1]
		} else if len(s.Hosts) > 1 {
			s.Hosts = s.Hosts[:len(s.Hosts)-1]
		} else {
			return vfSvcSpec{}
		}
	}
}

func c04GenRequests(t *rapid.T, services []vfSvcSpec) []c04Req {
	var hosts, paths []string
	for _, s := range services {
		for _, h := range s.Hosts {
			base := strings.TrimPrefix(h, "*.")
			hosts = append(hosts, base, "a."+base, "b.a."+base, base+":8080")
			if i := strings.Index(base, "."); i > 0 {
				hosts = append(hosts, base[i+1:])
			}
		}
		for _, p := range s.normPrefixes() {
			paths = append(paths, p, p+"/", p+"x", p+"/x", p+"//x", strings.TrimSuffix(p, "a"), p+"ary/z")
			if len(p) > 1 {
				// the same paths with an octet of the prefix percent-encoded: routing is by the decoded path
				enc := fmt.Sprintf("%s%%%02X%s", p[:1], p[1], p[2:])
				paths = append(paths, enc, enc+"/x", fmt.Sprintf("%s%%%02x/y", p[:len(p)-1], p[len(p)-1]))
			}
		}
	}
	hosts = append(hosts, "", "localhost", "a", "127.0.0.1", "127.0.0.1:80", "[::1]", "[::1]:8080", "zz.example.com", "a.:80")
	paths = append(paths, "/", "/x", "//", "/api", "/apiary", "/api/", "/ap", "/api/v1/a/b", "" /* absolute-form request line without a path */)
	n := rapid.IntRange(4, 30).Draw(t, "nreq")
	out := make([]c04Req, n)
	for i := range out {
		var h string
		if rapid.IntRange(0, 4).Draw(t, "hostsrc") == 0 {
			h = c04GenHost(t, "rhost")
			if rapid.Bool().Draw(t, "port") {
				h += ":81"
			}
		} else {
			h = rapid.SampledFrom(hosts).Draw(t, "rhost-pick")
		}
		p := rapid.SampledFrom(paths).Draw(t, "rpath-pick")
		if p != "" && !strings.HasPrefix(p, "/") {
			p = "/" + p
		}
		out[i] = c04Req{Host: h, Path: p}
	}
	return out
}

func c04Gen(t *rapid.T) c04Plan {
	p := c04Plan{}
	p.Services = c04GenServices(t, 6)
	p.Order2 = rapid.Permutation(vfIota(len(p.Services))).Draw(t, "order2")
	p.Detour = rapid.IntRange(0, 5).Draw(t, "detour")
	p.DetourOn = rapid.IntRange(0, len(p.Services)-1).Draw(t, "detour-on")
	p.Restart = rapid.Bool().Draw(t, "restart")
	p.Requests = c04GenRequests(t, p.Services)
	return p
}

func vfIota(n int) []int {
	out := make([]int, n)
	for i := range out {
		out[i] = i
	}
	return out
}

// vfFastTargetOptions: probes every second, everything else default.
func vfFastTargetOptions() TargetOptions {
	return TargetOptions{HealthCheckConfig: HealthCheckConfig{Path: DefaultHealthCheckPath, Interval: time.Second, Timeout: 5 * time.Second},
		ResponseTimeout: DefaultTargetTimeout}
}

func vfDeploySpec(r *Router, s vfSvcSpec, target string) error {
	opts := ServiceOptions{Hosts: append([]string(nil), s.Hosts...), PathPrefixes: append([]string(nil), s.Prefixes...), TLSRedirect: true}
	opts.Normalize() // what the CLI does before sending the command
	return vfDeploy(r, s.Name, []string{target}, opts, vfFastTargetOptions(), 5*time.Second, time.Second)
}

func c04Run(t *testing.T, p c04Plan) (res vfResult) {
	vfBubble(t, func(w *vfWorld) {
		targetOf := map[string]string{}
		svcOf := map[string]string{}
		for i, s := range p.Services {
			tn := fmt.Sprintf("tg%d:80", i)
			w.target(tn)
			targetOf[s.Name] = tn
			svcOf[tn] = s.Name
		}
		w.target("tgx:80")

		r1 := w.newRouter("r1")
		for _, s := range p.Services {
			if err := vfDeploySpec(r1, s, targetOf[s.Name]); err != nil {
				res.failf("deploy-error", "router1: deploy of %+v failed: %v", s, err)
				return
			}
		}
		r2 := w.newRouter("r2")
		r2Extra := false
		var intruderCmd *vfPendingCmd
		if p.Detour == 1 {
			// a service that takes (and gives back) bindings others will want
			victim := p.Services[p.DetourOn%len(p.Services)]
			extra := vfSvcSpec{Name: "extra", Hosts: victim.Hosts, Prefixes: victim.Prefixes}
			if err := vfDeploySpec(r2, extra, "tgx:80"); err != nil {
				res.failf("deploy-error", "router2: detour deploy failed: %v", err)
				return
			}
			if err := vfRemove(r2, "extra"); err != nil {
				res.failf("deploy-error", "router2: detour remove failed: %v", err)
				return
			}
			res.label("detour:deploy-remove")
		}
		if p.Detour == 3 {
			// a service on a host of its own (one the request matrix asks for) comes and goes: afterwards that host
			// must again fall through to whatever wildcard / default service covers it
			host := vfHostOnly(p.Requests[p.DetourOn%len(p.Requests)].Host)
			extra := vfSvcSpec{Name: "extra", Hosts: []string{host}}
			if host != "" && !vfConflict(p.Services, extra) {
				if err := vfDeploySpec(r2, extra, "tgx:80"); err != nil {
					res.failf("deploy-error", "router2: detour deploy on %q failed: %v", host, err)
					return
				}
				res.label("detour:own-host-deploy-remove")
				r2Extra = true
			}
		}
		for _, i := range p.Order2 {
			if i >= len(p.Services) {
				continue
			}
			s := p.Services[i]
			if p.Detour == 2 && i == p.DetourOn%len(p.Services) {
				other := vfSvcSpec{Name: s.Name, Hosts: []string{"detour.example"}, Prefixes: []string{"/detour"}}
				if err := vfDeploySpec(r2, other, targetOf[s.Name]); err != nil {
					res.failf("deploy-error", "router2: detour bindings deploy failed: %v", err)
					return
				}
				res.label("detour:rebind")
			}
			if p.Detour == 5 && i == p.DetourOn%len(p.Services) {
				// an intruder claims the same bindings and is still waiting for its (slow) target to become healthy when
				// the rightful service is deployed: the intruder's deploy must come to nothing
				w.target("tgx:80").setProbeScript([]vfProbeStep{{Kind: "slow", Status: 200, DelayMs: 400}}, vfProbeStep{Kind: "ok"})
				intruder := vfSvcSpec{Name: "intruder", Hosts: s.Hosts, Prefixes: s.Prefixes}
				intruderCmd = w.goCmd(func() error { return vfDeploySpec(r2, intruder, "tgx:80") })
				synctest.Wait()
				res.label("detour:intruder-waiting-for-health")
			}
			if p.Detour == 4 && i == p.DetourOn%len(p.Services) {
				// the same hosts, another path first: the redeploy changes nothing but the prefix list
				other := vfSvcSpec{Name: s.Name, Hosts: s.Hosts, Prefixes: []string{"/zz-detour"}}
				if err := vfDeploySpec(r2, other, targetOf[s.Name]); err != nil {
					res.failf("deploy-error", "router2: detour (other prefix on the same hosts) deploy failed: %v", err)
					return
				}
				res.label("detour:same-hosts-other-prefix")
			}
			if err := vfDeploySpec(r2, s, targetOf[s.Name]); err != nil {
				res.failf("deploy-error", "router2: deploy of %+v failed: %v", s, err)
				return
			}
		}
		if intruderCmd != nil {
			time.Sleep(time.Second)
			<-intruderCmd.done
			synctest.Wait()
		}
		if r2Extra {
			// removed only after everything else is in place
			if err := vfRemove(r2, "extra"); err != nil {
				res.failf("deploy-error", "router2: detour remove failed: %v", err)
				return
			}
		}
		routers := map[string]*Router{"in-order": r1, "permuted": r2}
		if p.Restart {
			r3 := vfNewRouter(w.statePath("r1"))
			w.adopt(r3)
			if err := r3.RestoreLastSavedState(); err != nil {
				res.failf("restore-error", "restore failed: %v", err)
				return
			}
			routers["restored"] = r3
			res.label("restart")
		}

		synctest.Wait() // quiescent observation: probe goroutines have finished updating rotations
		boundary := false
		shared := c04SharedLevel(p.Services)
		for _, rq := range p.Requests {
			decoded := rq.Path
			if u, err := url.ParseRequestURI(rq.Path); err == nil {
				decoded = u.Path
			}
			want, wantPrefix := vfRefRoute(p.Services, rq.Host, decoded)
			if c04IsBoundary(p.Services, c04Req{Host: rq.Host, Path: decoded}, want, wantPrefix) || decoded != rq.Path {
				boundary = true
			}
			for _, rn := range []string{"in-order", "permuted", "restored"} {
				r, ok := routers[rn]
				if !ok {
					continue
				}
				req := httptest.NewRequest("GET", "http://placeholder"+rq.Path, nil)
				req.Host = rq.Host
				resp := w.do(r, req)
				got := ""
				switch {
				case resp.Status == http.StatusNotFound && resp.Target == "":
					got = ""
				case resp.Status == 200 && resp.Target != "":
					got = svcOf[resp.Target]
				default:
					res.failf("unexpected-response", "router %s: request host=%q path=%q: unexpected response %v", rn, rq.Host, rq.Path, resp)
					return
				}
				if got != want {
					res.failf("misroute", "router %s: request host=%q path=%q handled by %q, reference says %q (prefix %q); services=%+v",
						rn, rq.Host, rq.Path, got, want, wantPrefix, p.Services)
					return
				}
			}
		}
		res.NonTrivial = shared && boundary
		if shared {
			res.label("shared-host-level")
		}
		if boundary {
			res.label("boundary-request")
		}
		res.label(fmt.Sprintf("services:%d", len(p.Services)))
	})
	return res
}

// c04SharedLevel: at least two services bound to the same host (or both to the default).
func c04SharedLevel(specs []vfSvcSpec) bool {
	seen := map[string]string{}
	for _, s := range specs {
		for _, h := range s.normHosts() {
			if n, ok := seen[h]; ok && n != s.Name {
				return true
			}
			seen[h] = s.Name
		}
	}
	return false
}

// c04IsBoundary: the request sits on a decision boundary of the routing rule.
func c04IsBoundary(specs []vfSvcSpec, rq c04Req, want, wantPrefix string) bool {
	host := vfHostOnly(rq.Host)
	// look-alike: some prefix is a plain string prefix of the path without matching on a boundary
	for _, s := range specs {
		for _, p := range s.normPrefixes() {
			if p != "/" && strings.HasPrefix(rq.Path, p) && !vfPrefixMatches(p, rq.Path) {
				return true
			}
		}
	}
	exact, wild := false, false
	for _, s := range specs {
		for _, h := range s.normHosts() {
			if h == host {
				exact = true
			}
			if i := strings.Index(host, "."); i > 0 && h == "*"+host[i:] {
				wild = true
			}
		}
	}
	if exact && wild {
		return true // wildcard-vs-exact
	}
	if exact && want == "" {
		return true // exact level non-empty but no path matches: must be 404, not a fallback
	}
	if rq.Host != host {
		return true // port present
	}
	return false
}

func TestVF_C04(t *testing.T) {
	vfCheck(t, vfProp[c04Plan]{id: "C04", gen: c04Gen, run: c04Run})
}
