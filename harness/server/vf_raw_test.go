//go:build verif && go1.25

package server

// Byte-level endpoints: a front (real net/http server in front of the proxy handler, on the
// in-memory network), raw clients, and raw targets that record request bytes verbatim and play
// a scripted response (bytes / delays / close / reset / stall).

import (
	"bufio"
	"bytes"
	"context"
	"crypto/tls"
	"errors"
	"io"
	"net"
	"fmt"
	"net/http"
	"os"
	"strings"
	"sync"
	"time"
)

type vfFront struct {
	w      *vfWorld
	srv    *http.Server
	tlsSrv *http.Server
	addr   string
}

// front starts the proxy's real HTTP (and HTTPS) servers for router r - Server.startHTTPServers, with the
// http.Server configuration and the middleware chain of the code under test - on the in-memory network at
// addr ("front:80"; the HTTPS server listens on port 443 of the same host). Two test conveniences are layered
// over the server's own handler: requests carrying the header X-Vf-Tls are presented to it as TLS requests,
// and the inbound body is spied on (for the full-duplex finding of C13).
func (w *vfWorld) front(r *Router, addr string) *vfFront {
	host, _, err := net.SplitHostPort(addr)
	if err != nil {
		panic(err)
	}
	f := &vfFront{w: w, addr: addr}
	s := NewServer(&Config{Bind: host, HttpPort: 80, HttpsPort: 443}, r)
	if err := s.startHTTPServers(); err != nil {
		panic(fmt.Sprintf("startHTTPServers: %v", err))
	}
	h := s.httpServer.Handler
	s.httpServer.Handler = http.HandlerFunc(func(rw http.ResponseWriter, r *http.Request) {
		if r.Header.Get("X-Vf-Tls") != "" {
			r.Header.Del("X-Vf-Tls")
			r.TLS = &tls.ConnectionState{}
		}
		r.Body = &vfSpyReqBody{ReadCloser: r.Body, w: w}
		if os.Getenv("VF_DEBUG") != "" {
			defer func() {
				if rec := recover(); rec != nil {
					fmt.Fprintf(os.Stderr, "VF-DEBUG handler aborted: %v; request ctx err=%v cause=%v at %v\n", rec, r.Context().Err(), context.Cause(r.Context()), w.now())
					panic(rec)
				}
			}()
		}
		h.ServeHTTP(rw, r)
	})
	f.srv, f.tlsSrv = s.httpServer, s.httpsServer
	w.mu.Lock()
	w.fronts = append(w.fronts, f)
	w.mu.Unlock()
	return f
}

type vfSpyReqBody struct {
	io.ReadCloser
	w *vfWorld
	n int
}

func (b *vfSpyReqBody) Read(p []byte) (int, error) {
	n, err := b.ReadCloser.Read(p)
	b.n += n
	if err == http.ErrBodyReadAfterClose {
		// net/http (HTTP/1) closes the request body at the first write of the response; the proxy's transport
		// was still reading it
		b.w.reqBodyClosed.Store(true)
	}
	if err != nil && err != io.EOF && os.Getenv("VF_DEBUG") != "" {
		fmt.Fprintf(os.Stderr, "VF-DEBUG inbound request body read error after %d bytes: %T %v\n", b.n, err, err)
	}
	return n, err
}

type vfRawResp struct {
	Raw        []byte         // every byte received
	Resp       *http.Response // parsed head (nil when unparsable)
	Body       []byte         // body bytes read
	BodyErr    error          // error while reading the body (nil = complete per its framing)
	HeadErr    error          // error parsing the head
	Start, End time.Duration
	HeadAt     time.Duration // instant the complete head was available (-1 never)
	FirstByte  time.Duration
	ClosedByPeer bool
	Interim      []int
}

func (r *vfRawResp) complete() bool { return r.Resp != nil && r.HeadErr == nil && r.BodyErr == nil }

// vfTeeConn records everything read.
type vfTeeConn struct {
	net.Conn
	mu        sync.Mutex
	buf       bytes.Buffer
	w         *vfWorld
	firstByte time.Duration
}

func (c *vfTeeConn) Read(p []byte) (int, error) {
	n, err := c.Conn.Read(p)
	if n > 0 {
		c.mu.Lock()
		if c.buf.Len() == 0 {
			c.firstByte = c.w.now()
		}
		c.buf.Write(p[:n])
		c.mu.Unlock()
	}
	return n, err
}

// rawExchange opens a connection from clientIP to the front, sends the request bytes (in the given
// chunks, with optional pauses) and reads one response. method tells the response reader about HEAD.
func (f *vfFront) rawExchange(clientIP string, chunks [][]byte, pauseMs []int, method string, abortAfter int) *vfRawResp {
	out := &vfRawResp{Start: f.w.now(), HeadAt: -1, FirstByte: -1}
	conn, err := f.w.net.DialFrom(context.Background(), clientIP, f.addr)
	if err != nil {
		out.HeadErr = err
		out.End = f.w.now()
		return out
	}
	defer conn.Close()
	tee := &vfTeeConn{Conn: conn, w: f.w, firstByte: -1}
	writeDone := make(chan struct{})
	go func() {
		defer close(writeDone)
		sent := 0
		for i, ch := range chunks {
			if i < len(pauseMs) && pauseMs[i] > 0 {
				tm := time.NewTimer(vfMs(pauseMs[i]))
				select {
				case <-tm.C:
				case <-f.w.closeCh:
					tm.Stop()
					return
				}
			}
			if abortAfter > 0 && sent+len(ch) >= abortAfter {
				conn.Write(ch[:abortAfter-sent])
				conn.Reset()
				return
			}
			if _, err := conn.Write(ch); err != nil {
				return
			}
			sent += len(ch)
		}
	}()
	br := bufio.NewReader(tee)
	req := &http.Request{Method: method}
	resp, err := http.ReadResponse(br, req)
	for err == nil && resp.StatusCode >= 100 && resp.StatusCode < 200 && resp.StatusCode != 101 {
		out.Interim = append(out.Interim, resp.StatusCode) // interim responses are relayed or not; the final one counts
		resp, err = http.ReadResponse(br, req)
	}
	if err != nil {
		out.HeadErr = err
	} else {
		out.Resp = resp
		out.HeadAt = f.w.now()
		body, berr := io.ReadAll(resp.Body)
		out.Body, out.BodyErr = body, berr
		resp.Body.Close()
	}
	<-writeDone
	out.End = f.w.now()
	tee.mu.Lock()
	out.Raw = append([]byte(nil), tee.buf.Bytes()...)
	out.FirstByte = tee.firstByte
	tee.mu.Unlock()
	out.ClosedByPeer = conn.peerGone()
	return out
}

// ---------------------------------------------------------------- raw targets

type vfRawStep struct {
	Kind    string `json:"k"`           // bytes | delay | close | reset | stall
	Data    string `json:"b,omitempty"` // for bytes
	DelayMs int    `json:"d,omitempty"` // for delay
}

type vfRawSeen struct {
	At       time.Duration // connection accepted
	HeadAt   time.Duration // request head complete (-1 never)
	BodyAt   time.Duration // whole request read (-1 never)
	Raw      []byte        // bytes received up to the end of the request
	Req      *http.Request // parsed request (nil if it did not parse)
	Body     []byte
	Line     string        // the request line as received
	ClosedAt time.Duration // when the proxy side closed the connection (-1 if we closed first / never)
	Probe    bool
}

type vfRawTarget struct {
	name string
	w    *vfWorld
	l    *vfListener

	mu      sync.Mutex
	scripts [][]vfRawStep // one per client connection-request, in arrival order; default afterwards
	def     []vfRawStep
	idx     int
	seen    []*vfRawSeen
	probeOK bool
	thinkMs     int // the target starts answering this long after it has the whole request (default 1 ms)
	acceptClose int // close this many non-probe connections right after accepting them
	conns       map[*vfConn]struct{}
}

// closeConns closes every established connection (the target process died).
func (rt *vfRawTarget) closeConns() {
	rt.mu.Lock()
	var cs []*vfConn
	for c := range rt.conns {
		cs = append(cs, c)
	}
	rt.mu.Unlock()
	for _, c := range cs {
		c.Close()
	}
}

func (rt *vfRawTarget) setAcceptClose(n int) {
	rt.mu.Lock()
	rt.acceptClose = n
	rt.mu.Unlock()
}

// rawTarget listens on name; probes (User-Agent kamal-proxy) are answered 200 while probeOK.
func (w *vfWorld) rawTarget(name string) *vfRawTarget {
	addr := name
	if _, _, err := net.SplitHostPort(addr); err != nil {
		addr += ":80"
	}
	rt := &vfRawTarget{name: name, w: w, probeOK: true, thinkMs: vfRawThinkMs}
	rt.l = w.net.Listen(addr)
	w.mu.Lock()
	if w.raws == nil {
		w.raws = map[string]*vfRawTarget{}
	}
	w.raws[name] = rt
	w.mu.Unlock()
	go func() {
		for {
			c, err := rt.l.Accept()
			if err != nil {
				return
			}
			vc := c.(*vfConn)
			rt.mu.Lock()
			ac := rt.acceptClose > 0 && !strings.HasPrefix(vc.RemoteAddr().String(), vfProbeClientIP)
			if ac {
				rt.acceptClose--
			}
			rt.mu.Unlock()
			if ac {
				vc.Close()
				continue
			}
			go rt.serve(vc)
		}
	}()
	return rt
}

func (w *vfWorld) rawTargetByName(name string) *vfRawTarget {
	w.mu.Lock()
	defer w.mu.Unlock()
	return w.raws[name]
}

func (rt *vfRawTarget) setScripts(scripts [][]vfRawStep, def []vfRawStep) {
	rt.mu.Lock()
	rt.scripts, rt.def, rt.idx = scripts, def, 0
	rt.mu.Unlock()
}

func (rt *vfRawTarget) seenCopy() []vfRawSeen {
	rt.mu.Lock()
	defer rt.mu.Unlock()
	var out []vfRawSeen
	for _, s := range rt.seen {
		if !s.Probe {
			out = append(out, *s)
		}
	}
	return out
}

// vfRawThinkMs: a raw target answers 1 ms (virtual) after it has read the request. By then every goroutine of the
// proxy has settled, in particular the transport has seen the end of the request body. A target that answers at
// the very instant it has the last body byte races with that (see the C13 known finding); checks that want that
// race ask for it explicitly.
const vfRawThinkMs = 1

func (rt *vfRawTarget) setThink(ms int) {
	rt.mu.Lock()
	rt.thinkMs = ms
	rt.mu.Unlock()
}

var vfDefaultRawResponse = []vfRawStep{{Kind: "bytes", Data: "HTTP/1.1 200 OK\r\nContent-Length: 2\r\nX-Vf-Target: raw\r\n\r\nok"}}

func (rt *vfRawTarget) serve(c *vfConn) {
	rt.mu.Lock()
	if rt.conns == nil {
		rt.conns = map[*vfConn]struct{}{}
	}
	rt.conns[c] = struct{}{}
	rt.mu.Unlock()
	defer func() {
		rt.mu.Lock()
		delete(rt.conns, c)
		rt.mu.Unlock()
	}()
	defer c.Close()
	tee := &vfTeeConn{Conn: c, w: rt.w, firstByte: -1}
	br := bufio.NewReader(tee)
	for {
		seen := &vfRawSeen{At: rt.w.now(), HeadAt: -1, BodyAt: -1, ClosedAt: -1}
		start := tee.buf.Len()
		req, err := http.ReadRequest(br)
		if err != nil {
			return
		}
		seen.HeadAt = rt.w.now()
		seen.Req = req
		seen.Probe = req.Header.Get("User-Agent") == healthCheckUserAgent
		if !seen.Probe {
			rt.mu.Lock()
			rt.seen = append(rt.seen, seen)
			rt.mu.Unlock()
		}
		body, berr := io.ReadAll(req.Body)
		seen.Body = body
		tee.mu.Lock()
		all := tee.buf.Bytes()
		seen.Raw = append([]byte(nil), all[min(start, len(all)):len(all)-br.Buffered()]...)
		tee.mu.Unlock()
		if i := bytes.Index(seen.Raw, []byte("\r\n")); i >= 0 {
			seen.Line = string(seen.Raw[:i])
		}
		if berr != nil {
			rt.mu.Lock()
			seen.ClosedAt = rt.w.now()
			rt.mu.Unlock()
			return
		}
		rt.mu.Lock()
		seen.BodyAt = rt.w.now()
		rt.mu.Unlock()
		if seen.Probe {
			rt.mu.Lock()
			ok := rt.probeOK
			rt.mu.Unlock()
			if ok {
				c.Write([]byte("HTTP/1.1 200 OK\r\nContent-Length: 0\r\n\r\n"))
			} else {
				c.Write([]byte("HTTP/1.1 500 Internal Server Error\r\nContent-Length: 0\r\n\r\n"))
			}
			continue
		}
		rt.mu.Lock()
		script := rt.def
		if rt.idx < len(rt.scripts) {
			script = rt.scripts[rt.idx]
		}
		rt.idx++
		rt.mu.Unlock()
		if script == nil {
			script = vfDefaultRawResponse
		}
		rt.mu.Lock()
		think := rt.thinkMs
		rt.mu.Unlock()
		if think > 0 && !rt.waitOrPeerClose(c, vfMs(think)) {
			return
		}
		keep := rt.play(c, script, seen)
		if !keep {
			return
		}
	}
}

// play runs the script; returns true when the connection stays usable for another request.
func (rt *vfRawTarget) play(c *vfConn, script []vfRawStep, seen *vfRawSeen) bool {
	markClosed := func() {
		rt.mu.Lock()
		if seen.ClosedAt < 0 {
			seen.ClosedAt = rt.w.now()
		}
		rt.mu.Unlock()
	}
	for _, st := range script {
		switch st.Kind {
		case "bytes":
			if _, err := c.Write([]byte(st.Data)); err != nil {
				markClosed()
				return false
			}
		case "delay":
			if !rt.waitOrPeerClose(c, vfMs(st.DelayMs)) {
				markClosed()
				return false
			}
		case "close":
			c.Close()
			return false
		case "reset":
			c.Reset()
			return false
		case "stall":
			rt.waitOrPeerClose(c, 0)
			markClosed()
			return false
		}
	}
	return true
}

// waitOrPeerClose waits d (0 = forever) and returns false if the peer closed meanwhile.
func (rt *vfRawTarget) waitOrPeerClose(c *vfConn, d time.Duration) bool {
	gone := make(chan struct{})
	stop := make(chan struct{})
	go func() {
		// a read that only returns when the peer closes / sends more (pipelining is not used by the proxy)
		c.rd.mu.Lock()
		for !c.rd.eof && c.rd.err == nil && !c.isClosed() {
			select {
			case <-stop:
				c.rd.mu.Unlock()
				return
			default:
			}
			c.rd.cond.Wait()
		}
		c.rd.mu.Unlock()
		close(gone)
	}()
	defer func() {
		close(stop)
		c.rd.mu.Lock()
		c.rd.cond.Broadcast()
		c.rd.mu.Unlock()
	}()
	var timer <-chan time.Time
	if d > 0 {
		tm := time.NewTimer(d)
		defer tm.Stop()
		timer = tm.C
	}
	select {
	case <-timer:
		return true
	case <-gone:
		return false
	case <-rt.w.closeCh:
		return false
	}
}

var _ = errors.New
var _ = strings.TrimSpace
