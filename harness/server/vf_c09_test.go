//go:build verif && go1.25

package server

// C09 — only healthy targets receive traffic, in fair rotation; probing never stops.

import (
	"fmt"
	"os"
	"sort"
	"testing"
	"testing/synctest"
	"time"

	"pgregory.net/rapid"
)

type c09Event struct {
	AtMs  int `json:"at_ms"` // relative to the end of the deploy; made odd so it never ties with a probe instant
	Seq   int `json:"seq"`   // this many sequential requests ...
	Batch int `json:"batch"` // ... then one batch of this many concurrent requests (0 = none)
}

type c09Plan struct {
	N              int             `json:"n"`
	IntervalMs     int             `json:"interval_ms"`
	ProbeTimeoutMs int             `json:"probe_timeout_ms"`
	Scripts        [][]vfProbeStep `json:"scripts"`
	Defaults       []vfProbeStep   `json:"defaults"`
	Events         []c09Event      `json:"events"`
	// DrainAt >= 0: before that event the service is paused while a request of DrainMs is in flight (the pause drains
	// for that long while probing goes on) and resumed again
	DrainAt int `json:"drain_at"`
	DrainMs int `json:"drain_ms"`
	// Restart: the proxy is restarted from its state file right after the deploy; everything else happens on the
	// restored proxy (whose targets are presumed healthy until their first probe)
	Restart bool `json:"restart,omitempty"`
	// RestoreSlow: the restoring goroutine is held just before it presumes the restored targets healthy until the
	// bubble is idle (whatever probes were already started have been answered by then)
	RestoreSlow bool `json:"restore_slow,omitempty"`
	// Together: probe answers that arrive at one virtual instant are handed to the proxy at the same real moment
	// (spin rendezvous in the harness's probe transport): the health changes they cause, and the rotation updates
	// after them, contend
	Together bool `json:"together,omitempty"`
	// RolloutCycle: before anything else a rollout target is deployed, a split set, stopped and set again; that target,
	// too, keeps being probed to the end
	RolloutCycle bool `json:"rollout_cycle,omitempty"`
	// Refused > 0: with a second service on another host in place, one more command on the service is refused before
	// anything else happens (1: redeploy onto the other service's host, 2: redeploy onto a dead target, 3: rollout
	// deploy of a dead target) - the targets in place keep being probed as if it had never been issued
	Refused int `json:"refused,omitempty"`
}

func c09Gen(t *rapid.T) c09Plan {
	p := c09Plan{}
	p.N = rapid.IntRange(1, 5).Draw(t, "n")
	p.IntervalMs = rapid.SampledFrom([]int{100, 200, 500}).Draw(t, "interval")
	p.ProbeTimeoutMs = rapid.SampledFrom([]int{50, 100, 300, 700}).Draw(t, "probe-timeout")
	for i := 0; i < p.N; i++ {
		var sc []vfProbeStep
		k := rapid.IntRange(0, 8).Draw(t, "script-len")
		for j := 0; j < k; j++ {
			switch rapid.IntRange(0, 6).Draw(t, "step") {
			case 0:
				sc = append(sc, vfProbeStep{Kind: "refuse"})
			case 1:
				sc = append(sc, vfProbeStep{Kind: "status", Status: rapid.SampledFrom([]int{500, 404, 302}).Draw(t, "status")})
			case 2:
				sc = append(sc, vfProbeStep{Kind: "slow", Status: 200, DelayMs: rapid.SampledFrom([]int{20, p.ProbeTimeoutMs - 10, p.ProbeTimeoutMs + 10, p.IntervalMs + 30}).Draw(t, "delay")})
			case 3:
				sc = append(sc, vfProbeStep{Kind: "stall"})
			default:
				sc = append(sc, vfProbeStep{Kind: "ok"})
			}
		}
		p.Scripts = append(p.Scripts, sc)
		switch rapid.IntRange(0, 4).Draw(t, "default") {
		case 0:
			p.Defaults = append(p.Defaults, vfProbeStep{Kind: "status", Status: 500})
		case 1:
			p.Defaults = append(p.Defaults, vfProbeStep{Kind: "refuse"})
		default:
			p.Defaults = append(p.Defaults, vfProbeStep{Kind: "ok"})
		}
	}
	ne := rapid.IntRange(2, 12).Draw(t, "nevents")
	at := 0
	for i := 0; i < ne; i++ {
		at += rapid.IntRange(0, 12).Draw(t, "gap") * 50
		ev := c09Event{AtMs: at + 7, Seq: rapid.IntRange(0, 3*p.N).Draw(t, "seq")}
		if rapid.IntRange(0, 2).Draw(t, "batch?") == 0 {
			ev.Batch = rapid.IntRange(2, 12).Draw(t, "batch")
		}
		p.Events = append(p.Events, ev)
	}
	p.Restart = rapid.IntRange(0, 3).Draw(t, "restart") == 0
	p.RestoreSlow = p.Restart && rapid.Bool().Draw(t, "restore-slow")
	p.RolloutCycle = rapid.IntRange(0, 4).Draw(t, "rollout-cycle") == 0
	if rapid.IntRange(0, 2).Draw(t, "refused?") == 0 {
		p.Refused = rapid.IntRange(1, 3).Draw(t, "refused")
		p.RolloutCycle = p.RolloutCycle || rapid.IntRange(0, 2).Draw(t, "refused-with-rollout") > 0
	}
	p.Together = p.N >= 2 && rapid.IntRange(0, 3).Draw(t, "together") > 0
	p.DrainAt = -1
	if rapid.IntRange(0, 2).Draw(t, "drain-episode") == 0 {
		p.DrainAt = rapid.IntRange(0, ne-1).Draw(t, "drain-at")
		p.DrainMs = rapid.SampledFrom([]int{50, 250, 450, 1050, 2050}).Draw(t, "drain-ms")
	}
	return p
}

// c09Health computes, from a target's probe log, whether its latest completed probe at instant now
// succeeded. ambiguous: the verdict hinges on a tie (answer exactly at the probe timeout).
func c09Health(log []vfProbeRec, now, timeout time.Duration, presumed bool) (healthy, ambiguous bool) {
	healthy = presumed
	for _, pr := range log {
		var done time.Duration
		var ok, amb bool
		switch {
		case pr.Refused:
			done, ok = pr.At, false
		case pr.Done >= 0 && pr.Done-pr.At < timeout:
			done, ok = pr.Done, pr.Status >= 200 && pr.Status <= 299
		case pr.Done >= 0 && pr.Done-pr.At == timeout:
			done, ok, amb = pr.Done, pr.Status >= 200 && pr.Status <= 299, true
		default:
			done, ok = pr.At+timeout, false
		}
		if done > now {
			continue
		}
		if done == now {
			amb = true
		}
		healthy, ambiguous = ok, amb
	}
	return
}

func c09Run(t *testing.T, p c09Plan) (res vfResult) {
	vfBubble(t, func(w *vfWorld) {
		w.noteInterval(vfMs(p.IntervalMs))
		r := w.newRouter("r")
		opts := ServiceOptions{TLSRedirect: true}
		opts.Normalize()
		to := vfFastTargetOptions()
		to.HealthCheckConfig.Interval = vfMs(p.IntervalMs)
		to.HealthCheckConfig.Timeout = vfMs(p.ProbeTimeoutMs)
		var names []string
		var tgs []*vfTarget
		for i := 0; i < p.N; i++ {
			n := fmt.Sprintf("tg%d:80", i)
			names = append(names, n)
			tgs = append(tgs, w.target(n))
		}
		if err := vfDeploy(r, "svc", names, opts, to, 5*time.Second, time.Second); err != nil {
			res.failf("setup-failed", "deploy failed: %v", err)
			return
		}
		if p.RolloutCycle {
			w.target("rt0:80")
			for _, step := range []func() error{
				func() error { return vfRolloutDeploy(r, "svc", []string{"rt0:80"}, 5*time.Second, time.Second) },
				func() error { return vfRolloutSet(r, "svc", 100, nil) },
				func() error { return vfRolloutStop(r, "svc") },
				func() error { return vfRolloutSet(r, "svc", 100, nil) },
			} {
				if err := step(); err != nil {
					res.failf("setup-failed", "rollout cycle: %v", err)
					return
				}
			}
			res.label("rollout-set-stopped-and-set-again")
		}
		if p.Refused > 0 {
			w.target("ot0:80")
			w.target("dead9:80").setDown(true)
			oo := ServiceOptions{Hosts: []string{"other.test"}, TLSRedirect: true}
			oo.Normalize()
			if err := vfDeploy(r, "other", []string{"ot0:80"}, oo, to, 5*time.Second, time.Second); err != nil {
				res.failf("setup-failed", "deploy of the second service: %v", err)
				return
			}
			var err error
			switch p.Refused {
			case 1:
				err = vfDeploy(r, "svc", names, oo, to, 5*time.Second, time.Second)
			case 2:
				err = vfDeploy(r, "svc", []string{"dead9:80"}, opts, to, 300*time.Millisecond, time.Second)
			case 3:
				err = vfRolloutDeploy(r, "svc", []string{"dead9:80"}, 300*time.Millisecond, time.Second)
			}
			if err == nil {
				res.failf("setup-failed", "the command that had to be refused (kind %d) succeeded", p.Refused)
				return
			}
			res.label(fmt.Sprintf("refused-command-before:%d", p.Refused))
		}
		synctest.Wait()
		var r2 *Router
		if p.Restart {
			raw, err := os.ReadFile(vfPathOf(r))
			if err != nil {
				res.failf("no-state-file", "%v", err)
				return
			}
			os.WriteFile(w.statePath("r2"), raw, 0o644)
			r2 = vfNewRouter(w.statePath("r2"))
			w.adopt(r2)
			if err := vfRemove(r, "svc"); err != nil { // the old process is gone, and its probing with it
				res.failf("setup-failed", "remove: %v", err)
				return
			}
			if p.Refused > 0 {
				vfRemove(r, "other")
			}
			synctest.Wait()
		}
		base := w.now()
		logBase := make([]int, p.N)
		for i, tg := range tgs {
			tg.setProbeScript(p.Scripts[i], p.Defaults[i])
			logBase[i] = len(tg.probeLog())
		}
		if p.Restart {
			var rerr error
			if p.RestoreSlow {
				sc := newVFSched(w, []string{"lb.mark-all-healthy"}, nil)
				sc.spawn("restore", func() { rerr = r2.RestoreLastSavedState() })
				for guard := 0; !sc.isFinished("restore") && guard < 100; guard++ {
					synctest.Wait()
					for _, a := range sc.parkedActors() {
						sc.release(a)
					}
				}
				sc.stop()
				vfCurSched.Store(nil)
				res.label("restore-held-before-presuming-health")
			} else {
				rerr = r2.RestoreLastSavedState()
			}
			if rerr != nil {
				res.failf("restore-failed", "restore: %v", rerr)
				return
			}
			r = r2
			synctest.Wait()
			res.label("restarted-from-state-file")
		}
		timeout := vfMs(p.ProbeTimeoutMs)
		if p.Together {
			w.probeBarrier.Store(true)
			res.label("simultaneous-probe-answers-handed-over-together")
		}

		type unit []string // targets that received the requests of one sequential request / one batch
		var stretch []unit
		var stretchH []string
		hChanges, longWindow := 0, false
		flush := func() bool {
			k := len(stretchH)
			if k > 0 {
				total := 0
				for i := range stretch {
					cnt := map[string]int{}
					n := 0
					for j := i; j < len(stretch); j++ {
						for _, x := range stretch[j] {
							cnt[x]++
							n++
						}
						for _, h := range stretchH {
							if cnt[h] < n/k || cnt[h] > (n+k-1)/k {
								res.failf("unfair-rotation", "healthy set %v unchanged, yet a window of %d consecutive requests gave %s %d (want %d or %d); receipts=%v",
									stretchH, n, h, cnt[h], n/k, (n+k-1)/k, stretch[i:j+1])
								return false
							}
						}
					}
					total += len(stretch[i])
				}
				if total >= 2*k && k >= 2 {
					longWindow = true
				}
			}
			stretch = nil
			return true
		}

		reqID := 0
		for ei, ev := range p.Events {
			if ei == p.DrainAt && p.DrainMs > 0 {
				if !flush() {
					return
				}
				stretchH = nil
				// a pause whose drain stays open for DrainMs while the probes keep coming, then resume
				long := w.goDo(r, vfNewRequest("GET", "any.host", "/long", &vfCtl{ID: "long", DurMs: p.DrainMs}, nil))
				synctest.Wait()
				if !long.finished() { // (with no healthy target the request is answered 503 at once: no drain then)
					if cr := w.runCmd(func() error { return vfPause(r, "svc", time.Minute, time.Minute) }); cr.Err != nil || cr.Panicked != "" {
						res.failf("setup-failed", "pause: %v %s", cr.Err, cr.Panicked)
						return
					}
					res.label("drain-episode")
				} else {
					vfPause(r, "svc", time.Minute, time.Minute)
				}
				<-long.done
				if cr := w.runCmd(func() error { return vfResume(r, "svc") }); cr.Err != nil || cr.Panicked != "" {
					res.failf("setup-failed", "resume: %v %s", cr.Err, cr.Panicked)
					return
				}
				synctest.Wait()
				if (w.now()-base)%(10*time.Millisecond) == 0 {
					time.Sleep(3 * time.Millisecond) // stay off the instants at which probes complete
				}
			}
			if d := base + vfMs(ev.AtMs) - w.now(); d > 0 {
				time.Sleep(d)
			}
			synctest.Wait()
			now := w.now()
			var H, maybe []string
			for i, tg := range tgs {
				h, amb := c09Health(tg.probeLog()[logBase[i]:], now, timeout, true)
				if amb {
					maybe = append(maybe, names[i])
				} else if h {
					H = append(H, names[i])
				}
			}
			sort.Strings(H)
			if len(maybe) > 0 {
				// tie: skip this event, start a new stretch afterwards
				res.label("tie-skipped")
				if !flush() {
					return
				}
				stretchH = nil
				continue
			}
			if fmt.Sprint(H) != fmt.Sprint(stretchH) {
				if !flush() {
					return
				}
				if stretchH != nil {
					hChanges++
				}
				stretchH = H
			}
			send := func(n int, concurrent bool) bool {
				var pend []*vfPending
				var u unit
				for i := 0; i < n; i++ {
					reqID++
					req := vfNewRequest("GET", "any.host", "/x", &vfCtl{ID: fmt.Sprintf("q%d", reqID)}, nil)
					if concurrent {
						pend = append(pend, w.goDo(r, req))
						continue
					}
					rp := w.do(r, req)
					if !c09Judge(&res, rp, H, now) {
						return false
					}
					if rp.Target != "" {
						stretch = append(stretch, unit{rp.Target})
					}
				}
				for _, pd := range pend {
					<-pd.done
					if !c09Judge(&res, pd.resp, H, now) {
						return false
					}
					if pd.resp.Target != "" {
						u = append(u, pd.resp.Target)
					}
				}
				if len(u) > 0 {
					stretch = append(stretch, u)
				}
				return true
			}
			if !send(ev.Seq, false) {
				return
			}
			if ev.Batch > 0 {
				res.label("concurrent-batch")
				if !send(ev.Batch, true) {
					return
				}
			}
			if w.now() != now {
				res.failf("harness", "requests took virtual time (%v -> %v)", now, w.now())
				return
			}
			if len(H) == 0 {
				res.label("no-healthy-target")
			}
		}
		if !flush() {
			return
		}
		// probing cadence: never stops, spaced by the interval
		end := w.now()
		ivl := vfMs(p.IntervalMs)
		if p.RolloutCycle {
			lg := w.targets["rt0:80"].probeLog()
			if len(lg) == 0 || end-lg[len(lg)-1].At > ivl+timeout {
				last := time.Duration(-1)
				if len(lg) > 0 {
					last = lg[len(lg)-1].At
				}
				res.failf("probing-stopped", "rollout target rt0:80 (split set, stopped and set again) was last probed at %v, now %v (interval %v)", last, end, ivl)
				return
			}
		}
		for i, tg := range tgs {
			lg := tg.probeLog()[logBase[i]:]
			if len(lg) == 0 {
				if end-base > ivl {
					res.failf("probing-stopped", "target %s saw no probe in %v after deploy (interval %v)", names[i], end-base, ivl)
					return
				}
				continue
			}
			dur := func(pr vfProbeRec) time.Duration {
				switch {
				case pr.Refused:
					return 0
				case pr.Done >= 0 && pr.Done-pr.At < timeout:
					return pr.Done - pr.At
				}
				return timeout
			}
			// time.Ticker semantics: probes start on the grid origin+k*interval, or - when a probe overran one or
			// more ticks - immediately when that probe completes (one tick is kept in reserve).
			full := tg.probeLog()
			origin := full[0].At
			if p.Restart {
				origin = lg[0].At // the restored proxy's own grid
			}
			for j := 1; j < len(lg); j++ {
				gap := lg[j].At - lg[j-1].At
				prevDur := dur(lg[j-1])
				onGrid := (lg[j].At-origin)%ivl == 0
				backToBack := lg[j].At == lg[j-1].At+prevDur && prevDur > 0
				hi := ivl
				if prevDur >= ivl {
					hi = prevDur + ivl
				}
				if !(onGrid || backToBack) || gap > hi || (gap == 0) {
					res.failf("probe-cadence", "target %s: probes at %v and %v (gap %v), previous probe took %v, interval %v, grid origin %v: want on the interval grid or back-to-back after an overrun, gap <= %v",
						names[i], lg[j-1].At, lg[j].At, gap, prevDur, ivl, origin, hi)
					return
				}
			}
			last := lg[len(lg)-1]
			if end-last.At > ivl+timeout+ivl {
				res.failf("probing-stopped", "target %s: last probe at %v, nothing since although %v passed (interval %v)", names[i], last.At, end-last.At, ivl)
				return
			}
		}
		res.NonTrivial = hChanges >= 2 && longWindow
		if hChanges >= 2 {
			res.label("healthy-set-changed>=2")
		}
		if longWindow {
			res.label("window>=2k")
		}
		res.label(fmt.Sprintf("targets:%d", p.N))
	})
	return res
}

func c09Judge(res *vfResult, rp *vfResp, H []string, now time.Duration) bool {
	if len(H) == 0 {
		if rp.Status != 503 || rp.Target != "" {
			res.failf("no-healthy-not-503", "no target is healthy at %v, request got %v (want 503 from the proxy)", now, rp)
			return false
		}
		return true
	}
	if rp.Status != 200 || !vfContains(H, rp.Target) {
		res.failf("sent-to-unhealthy", "at %v the healthy set is %v, request got %v", now, H, rp)
		return false
	}
	return true
}

func TestVF_C09(t *testing.T) {
	vfCheck(t, vfProp[c09Plan]{id: "C09", gen: c09Gen, run: c09Run})
}
