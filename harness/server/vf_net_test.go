//go:build verif && go1.25

package server

// In-memory network for the harness: listeners by address, buffered duplex
// connections with deadlines and fault injection. Everything blocks on
// sync.Cond / bubble channels so a synctest bubble can see it as idle.

import (
	"context"
	"errors"
	"fmt"
	"io"
	"net"
	"os"
	"sync"
	"syscall"
	"time"
)

type vfAddr struct{ s string }

func (a vfAddr) Network() string { return "tcp" }
func (a vfAddr) String() string  { return a.s }

// one direction of a connection
type vfHalf struct {
	mu     sync.Mutex
	cond   *sync.Cond
	buf    []byte
	eof    bool  // writer closed cleanly
	err    error // writer reset
	rclose bool  // reader side closed (writes fail)
	total  int64
}

func newHalf() *vfHalf {
	h := &vfHalf{}
	h.cond = sync.NewCond(&h.mu)
	return h
}

type vfConn struct {
	rd, wr        *vfHalf
	local, remote net.Addr
	net           *vfNet

	mu        sync.Mutex
	closed    bool
	rdl, wdl  time.Time
	rdlTimer  *time.Timer
	onClose   func()
	closeOnce sync.Once
	writeLag  time.Duration // Write returns this long after the peer can read the data (a slow syscall return)
}

func (c *vfConn) Read(p []byte) (int, error) {
	h := c.rd
	h.mu.Lock()
	defer h.mu.Unlock()
	for {
		c.mu.Lock()
		closed, dl := c.closed, c.rdl
		c.mu.Unlock()
		if closed {
			return 0, &net.OpError{Op: "read", Net: "tcp", Addr: c.local, Err: net.ErrClosed}
		}
		if !dl.IsZero() && !time.Now().Before(dl) {
			return 0, &net.OpError{Op: "read", Net: "tcp", Addr: c.local, Err: os.ErrDeadlineExceeded}
		}
		if len(h.buf) > 0 {
			n := copy(p, h.buf)
			h.buf = h.buf[n:]
			if len(h.buf) == 0 {
				h.buf = nil
			}
			return n, nil
		}
		if h.err != nil {
			return 0, &net.OpError{Op: "read", Net: "tcp", Addr: c.local, Err: h.err}
		}
		if h.eof {
			return 0, io.EOF
		}
		if len(p) == 0 {
			return 0, nil
		}
		h.cond.Wait()
	}
}

func (c *vfConn) Write(p []byte) (int, error) {
	c.mu.Lock()
	closed, dl := c.closed, c.wdl
	c.mu.Unlock()
	if closed {
		return 0, &net.OpError{Op: "write", Net: "tcp", Addr: c.local, Err: net.ErrClosed}
	}
	if !dl.IsZero() && !time.Now().Before(dl) {
		return 0, &net.OpError{Op: "write", Net: "tcp", Addr: c.local, Err: os.ErrDeadlineExceeded}
	}
	h := c.wr
	h.mu.Lock()
	defer h.mu.Unlock()
	if h.rclose {
		return 0, &net.OpError{Op: "write", Net: "tcp", Addr: c.local, Err: syscall.EPIPE}
	}
	if h.eof || h.err != nil {
		return 0, &net.OpError{Op: "write", Net: "tcp", Addr: c.local, Err: net.ErrClosed}
	}
	h.buf = append(h.buf, p...)
	h.total += int64(len(p))
	h.cond.Broadcast()
	if c.writeLag > 0 {
		h.mu.Unlock()
		time.Sleep(c.writeLag)
		h.mu.Lock()
	}
	return len(p), nil
}

func (c *vfConn) shutdown(reset bool) {
	c.mu.Lock()
	if c.closed {
		c.mu.Unlock()
		return
	}
	c.closed = true
	if c.rdlTimer != nil {
		c.rdlTimer.Stop()
	}
	c.mu.Unlock()
	// wake our own blocked reader
	c.rd.mu.Lock()
	c.rd.rclose = true
	c.rd.cond.Broadcast()
	c.rd.mu.Unlock()
	// tell the peer
	c.wr.mu.Lock()
	if reset {
		c.wr.err = syscall.ECONNRESET
		c.wr.buf = nil
	} else {
		c.wr.eof = true
	}
	c.wr.cond.Broadcast()
	c.wr.mu.Unlock()
	if c.onClose != nil {
		c.closeOnce.Do(c.onClose)
	}
}

func (c *vfConn) Close() error { c.shutdown(false); return nil }

// Reset closes the connection the way a TCP RST does: the peer's pending data
// is dropped and its reads fail with ECONNRESET.
func (c *vfConn) Reset() { c.shutdown(true) }

// CloseWrite half-closes (FIN) while still allowing reads.
func (c *vfConn) CloseWrite() error {
	c.wr.mu.Lock()
	c.wr.eof = true
	c.wr.cond.Broadcast()
	c.wr.mu.Unlock()
	return nil
}

func (c *vfConn) isClosed() bool {
	c.mu.Lock()
	defer c.mu.Unlock()
	return c.closed
}

// peerGone reports whether the other end has closed or reset its side.
func (c *vfConn) peerGone() bool {
	c.rd.mu.Lock()
	defer c.rd.mu.Unlock()
	return c.rd.eof || c.rd.err != nil
}

func (c *vfConn) LocalAddr() net.Addr  { return c.local }
func (c *vfConn) RemoteAddr() net.Addr { return c.remote }

func (c *vfConn) SetDeadline(t time.Time) error {
	c.SetReadDeadline(t)
	c.SetWriteDeadline(t)
	return nil
}

func (c *vfConn) SetReadDeadline(t time.Time) error {
	c.mu.Lock()
	c.rdl = t
	if c.rdlTimer != nil {
		c.rdlTimer.Stop()
		c.rdlTimer = nil
	}
	closed := c.closed
	if !t.IsZero() && !closed {
		d := time.Until(t)
		if d > 0 {
			c.rdlTimer = time.AfterFunc(d, func() {
				c.rd.mu.Lock()
				c.rd.cond.Broadcast()
				c.rd.mu.Unlock()
			})
		}
	}
	c.mu.Unlock()
	c.rd.mu.Lock()
	c.rd.cond.Broadcast()
	c.rd.mu.Unlock()
	return nil
}

func (c *vfConn) SetWriteDeadline(t time.Time) error {
	c.mu.Lock()
	c.wdl = t
	c.mu.Unlock()
	return nil
}

type vfListener struct {
	addr   string
	net    *vfNet
	ch     chan *vfConn
	done   chan struct{}
	once   sync.Once
	refuse   func() bool              // consulted per dial; true => connection refused
	refuseIP func(clientIP string) bool // same, knowing who dials
}

func (l *vfListener) Accept() (net.Conn, error) {
	select {
	case c := <-l.ch:
		return c, nil
	case <-l.done:
		return nil, net.ErrClosed
	}
}

func (l *vfListener) Close() error {
	l.once.Do(func() {
		close(l.done)
		l.net.mu.Lock()
		if l.net.listeners[l.addr] == l {
			delete(l.net.listeners, l.addr)
		}
		l.net.mu.Unlock()
	})
	return nil
}

func (l *vfListener) Addr() net.Addr { return vfAddr{l.addr} }

type vfNet struct {
	mu        sync.Mutex
	listeners map[string]*vfListener
	conns     map[*vfConn]struct{}
	nextPort  int
	dials     int
	closed    bool
}

func newVFNet() *vfNet {
	return &vfNet{listeners: map[string]*vfListener{}, conns: map[*vfConn]struct{}{}, nextPort: 40000}
}

func (n *vfNet) Listen(addr string) *vfListener {
	n.mu.Lock()
	defer n.mu.Unlock()
	l := &vfListener{addr: addr, net: n, ch: make(chan *vfConn, 1024), done: make(chan struct{})}
	if n.closed {
		l.once.Do(func() { close(l.done) }) // the world is being torn down: nobody will ever close this listener
		return l
	}
	n.listeners[addr] = l
	return l
}

var errVFRefused = &net.OpError{Op: "dial", Net: "tcp", Err: &os.SyscallError{Syscall: "connect", Err: syscall.ECONNREFUSED}}

// DialFrom connects to addr, the new connection reporting clientIP:port as its remote address.
func (n *vfNet) DialFrom(ctx context.Context, clientIP, addr string) (*vfConn, error) {
	if err := ctx.Err(); err != nil {
		return nil, err
	}
	if _, _, err := net.SplitHostPort(addr); err != nil {
		addr = addr + ":80"
	}
	n.mu.Lock()
	if n.closed {
		n.mu.Unlock()
		return nil, errVFRefused
	}
	l := n.listeners[addr]
	n.dials++
	n.nextPort++
	port := n.nextPort
	n.mu.Unlock()
	if l == nil {
		return nil, errVFRefused
	}
	if l.refuse != nil && l.refuse() {
		return nil, errVFRefused
	}
	if l.refuseIP != nil && l.refuseIP(clientIP) {
		return nil, errVFRefused
	}
	a2b, b2a := newHalf(), newHalf()
	ca := vfAddr{fmt.Sprintf("%s:%d", clientIP, port)}
	sa := vfAddr{addr}
	cli := &vfConn{rd: b2a, wr: a2b, local: ca, remote: sa, net: n}
	srv := &vfConn{rd: a2b, wr: b2a, local: sa, remote: ca, net: n}
	n.mu.Lock()
	if n.closed {
		// CloseAll ran between the check above and here: it would never see (and close) this pair
		n.mu.Unlock()
		return nil, errVFRefused
	}
	n.conns[cli] = struct{}{}
	n.conns[srv] = struct{}{}
	n.mu.Unlock()
	cli.onClose = func() { n.forget(cli) }
	srv.onClose = func() { n.forget(srv) }
	select {
	case l.ch <- srv:
	case <-l.done:
		cli.Close()
		srv.Close()
		return nil, errVFRefused
	}
	return cli, nil
}

func (n *vfNet) forget(c *vfConn) {
	n.mu.Lock()
	delete(n.conns, c)
	n.mu.Unlock()
}

func (n *vfNet) Dial(ctx context.Context, network, addr string) (net.Conn, error) {
	c, err := n.DialFrom(ctx, "10.0.0.1", addr)
	if err != nil {
		return nil, err
	}
	return c, nil
}

// CloseAll force-closes every listener and connection (teardown).
func (n *vfNet) CloseAll() {
	n.mu.Lock()
	n.closed = true
	ls := make([]*vfListener, 0, len(n.listeners))
	for _, l := range n.listeners {
		ls = append(ls, l)
	}
	cs := make([]*vfConn, 0, len(n.conns))
	for c := range n.conns {
		cs = append(cs, c)
	}
	n.mu.Unlock()
	for _, l := range ls {
		l.Close()
	}
	for _, c := range cs {
		c.Close()
	}
}

func (n *vfNet) openConns() int {
	n.mu.Lock()
	defer n.mu.Unlock()
	return len(n.conns)
}

var _ = errors.New
