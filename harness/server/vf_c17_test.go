//go:build verif && go1.25

package server

// C17 — commands return within their timeouts, as soon as their condition is met, and leave no
// probes behind.

import (
	"testing"
	"time"

	"pgregory.net/rapid"
)

// c17CheckDeployTiming: success => returned at the instant the last new target became healthy plus the
// drain (0 when the replaced set was idle); failure => returned exactly at the deploy timeout.
func c17CheckDeployTiming(res *vfResult, p c01Plan, w *vfWorld, cr vfCmdResult, failed bool, start, deadline, maxStrict, maxLoose time.Duration,
	probeTie bool, oldNames, oldRollout []string, desc string) {
	end := cr.End
	if probeTie {
		// some new target answered a probe exactly at the probe timeout: whether (and at which later probe) it
		// counted as healthy is not determined; only the overall bound is judged
		res.label("tie:probe-at-probe-timeout")
		if !failed && end > start+vfMs(p.DeployMs)+vfMs(p.DrainMs) {
			res.failf("deploy-exceeds-bound", "deploy took %v, more than deploy-timeout+drain-timeout: %s", end-start, desc)
		}
		return
	}
	if failed {
		if end != deadline {
			res.failf("failed-deploy-return-time", "failed deploy must return exactly at start+deploy-timeout=%v, returned at %v: %s", deadline, end, desc)
		}
		return
	}
	// healthy instant: between the strict and the loose reading (they differ only on a probe-timeout tie)
	lo, hi := min(maxStrict, maxLoose), max(maxStrict, maxLoose)
	if maxStrict < 0 {
		lo = maxLoose
	}
	// drain: requests in flight at the replaced set when draining began
	var replaced []string
	switch {
	case p.Kind == "redeploy":
		replaced = oldNames
	case p.Kind == "rollout" && p.OldRollout:
		replaced = oldRollout
	}
	// A request that reached a replaced target strictly before the swap instant is in the drain's snapshot; one
	// that reached it AT that instant may or may not be (same virtual instant, either order): it may lengthen
	// the wait but need not.
	drainMax, drainMust := time.Duration(0), time.Duration(0)
	for _, tn := range replaced {
		for _, rq := range w.targets[tn].reqLog() {
			if rq.Arrived <= hi && (rq.Finished < 0 || rq.Finished > lo) {
				fin := rq.Finished
				if fin < 0 || rq.Cancelled {
					fin = hi + vfMs(p.DrainMs)
				}
				drainMax = max(drainMax, fin)
				if rq.Arrived < lo {
					drainMust = max(drainMust, fin)
				} else {
					res.label("tie:request-at-swap-instant")
				}
			}
		}
	}
	wantLo, wantHi := lo, hi
	if drainMust > 0 {
		wantLo = max(lo, min(drainMust, lo+vfMs(p.DrainMs)))
	}
	if drainMax > 0 {
		wantHi = max(hi, min(drainMax, hi+vfMs(p.DrainMs)))
	}
	if end < wantLo || end > wantHi {
		res.failf("deploy-return-time", "successful deploy returned at %v, want within [%v,%v] (healthy at %v..%v, replaced set busy until %v, drain timeout %v): %s",
			end, wantLo, wantHi, lo, hi, drainMax, vfMs(p.DrainMs), desc)
		return
	}
	if end > start+vfMs(p.DeployMs)+vfMs(p.DrainMs) {
		res.failf("deploy-exceeds-bound", "deploy took %v, more than deploy-timeout+drain-timeout: %s", end-start, desc)
	}
	if end < deadline {
		res.label("returned-before-timeout")
	}
	if drainMax > 0 {
		res.label("drain-waited")
	}
}

func c17DeployGen(t *rapid.T) c01Plan { return c01GenMode(t, true) }

func TestVF_C17_Deploy(t *testing.T) {
	vfCheck(t, vfProp[c01Plan]{id: "C17", stallIsViolation: true, gen: c17DeployGen, run: func(t *testing.T, p c01Plan) vfResult {
		r := c01RunMode(t, p, "C17")
		// C17's non-trivial rule: returned strictly before its bound, or hit the bound exactly
		r.NonTrivial = r.Violation == "" && (vfHasLabel(r, "returned-before-timeout") || vfHasLabel(r, "outcome:failed"))
		return r
	}})
}

func vfHasLabel(r vfResult, l string) bool {
	for _, x := range r.Labels {
		if x == l {
			return true
		}
	}
	return false
}
