//go:build verif && go1.25

package server

// C15 — target failures become well-formed 502/504 responses (before the header block) or a visibly
// truncated response (after it); nothing is left behind.

import (
	"fmt"
	"strings"
	"testing"
	"testing/synctest"
	"time"

	"pgregory.net/rapid"
)

type c15Req struct {
	Fault   string `json:"fault"`
	DelayMs int    `json:"delay_ms,omitempty"` // late-head: head delivered this long after the request
}

type c15Plan struct {
	RespTimeoutMs int      `json:"resp_timeout_ms"`
	BufReq        bool     `json:"buf_req"`
	BufResp       bool     `json:"buf_resp"`
	ErrPages      int      `json:"err_pages"`
	KeepAlive     bool     `json:"keep_alive"` // POST only (not replayable), target keeps connections open
	Reqs          []c15Req `json:"reqs"`
	Burst         int      `json:"burst"` // > 0: first this many requests at once to a target that never answers
	Restart       bool     `json:"restart,omitempty"` // the proxy is restarted from its state file after the deploy: the faults meet the restored service
	Prefix        bool     `json:"prefix,omitempty"` // the service is mounted below /app (prefix stripped before forwarding, the CLI default)
	// DrainCmd (pause | stop): while a held-then-* request waits at the target, this command begins to drain the target
	// (drain timeout far beyond the fault): the target fails while it is being drained, not because of it - still a 502
	DrainCmd string `json:"drain_cmd,omitempty"`
}

var c15Faults = []string{"none", "no-listener", "accept-close", "read-close", "reset", "garbage", "partial-status", "partial-headers-close",
	"partial-headers-stall", "partial-headers-reset", "silence", "late-head", "head-then-close-short", "head-then-reset", "chunk-partial-close", "head-only-close",
	"early-then-reset", "early-then-garbage", "early-then-silence", "held-then-close", "held-then-reset", "held-then-garbage"}

const c15HeldMs = 200 // held-then-*: the target fails this long after it had the request

func c15Gen(t *rapid.T) c15Plan {
	p := c15Plan{}
	p.RespTimeoutMs = rapid.SampledFrom([]int{100, 500, 3000, 30000, 120000}).Draw(t, "resp-timeout") // 30 s is the CLI default
	p.BufReq = rapid.IntRange(0, 3).Draw(t, "buf-req") == 0
	p.BufResp = rapid.IntRange(0, 3).Draw(t, "buf-resp") == 0
	p.ErrPages = rapid.IntRange(0, 2).Draw(t, "err-pages")
	p.KeepAlive = rapid.Bool().Draw(t, "keep-alive")
	p.Prefix = rapid.IntRange(0, 2).Draw(t, "prefix") == 0
	p.Restart = rapid.IntRange(0, 3).Draw(t, "restart") == 0
	n := rapid.IntRange(1, 6).Draw(t, "nreqs")
	for i := 0; i < n; i++ {
		rq := c15Req{Fault: rapid.SampledFrom(c15Faults).Draw(t, "fault")}
		if rq.Fault == "late-head" {
			rq.DelayMs = p.RespTimeoutMs + rapid.SampledFrom([]int{-2, -1, 0, 1, -50, 50}).Draw(t, "late-by")
		}
		p.Reqs = append(p.Reqs, rq)
	}
	if rapid.IntRange(0, 2).Draw(t, "drain-cmd?") == 0 {
		p.DrainCmd = rapid.SampledFrom([]string{"pause", "stop"}).Draw(t, "drain-cmd")
	}
	if rapid.IntRange(0, 19).Draw(t, "burst") == 0 {
		p.Burst = rapid.SampledFrom([]int{101, 140}).Draw(t, "burst-n")
	}
	return p
}

const c15Early = "HTTP/1.1 103 Early Hints\r\nLink: </s.css>; rel=preload\r\n\r\n"
const c15OK = "HTTP/1.1 200 OK\r\nContent-Length: 2\r\nX-Vf-Target: raw\r\n\r\nok"
const c15OKClose = "HTTP/1.1 200 OK\r\nContent-Length: 2\r\nConnection: close\r\nX-Vf-Target: raw\r\n\r\nok"

func c15Script(f c15Req, keepAlive bool) []vfRawStep {
	ok := c15OKClose
	if keepAlive {
		ok = c15OK
	}
	switch f.Fault {
	case "none":
		if keepAlive {
			return []vfRawStep{{Kind: "bytes", Data: ok}}
		}
		return []vfRawStep{{Kind: "bytes", Data: ok}, {Kind: "close"}}
	case "read-close":
		return []vfRawStep{{Kind: "close"}}
	case "reset":
		return []vfRawStep{{Kind: "reset"}}
	case "garbage":
		return []vfRawStep{{Kind: "bytes", Data: "\x16\x03\x01 this is not HTTP\r\n\r\n"}, {Kind: "close"}}
	case "partial-status":
		return []vfRawStep{{Kind: "bytes", Data: "HTTP/1.1 2"}, {Kind: "close"}}
	case "partial-headers-close":
		return []vfRawStep{{Kind: "bytes", Data: "HTTP/1.1 200 OK\r\nContent-Le"}, {Kind: "close"}}
	case "partial-headers-stall":
		return []vfRawStep{{Kind: "bytes", Data: "HTTP/1.1 200 OK\r\nContent-Le"}, {Kind: "stall"}}
	case "partial-headers-reset":
		return []vfRawStep{{Kind: "bytes", Data: "HTTP/1.1 200 OK\r\nX-A: b\r\n"}, {Kind: "reset"}}
	case "silence":
		return []vfRawStep{{Kind: "stall"}}
	case "early-then-reset":
		return []vfRawStep{{Kind: "bytes", Data: c15Early}, {Kind: "reset"}}
	case "early-then-garbage":
		return []vfRawStep{{Kind: "bytes", Data: c15Early + "garbage\r\n\r\n"}, {Kind: "close"}}
	case "early-then-silence":
		return []vfRawStep{{Kind: "bytes", Data: c15Early}, {Kind: "stall"}}
	case "late-head":
		return []vfRawStep{{Kind: "delay", DelayMs: f.DelayMs}, {Kind: "bytes", Data: c15OKClose}, {Kind: "close"}}
	case "held-then-close":
		return []vfRawStep{{Kind: "delay", DelayMs: c15HeldMs}, {Kind: "close"}}
	case "held-then-reset":
		return []vfRawStep{{Kind: "delay", DelayMs: c15HeldMs}, {Kind: "reset"}}
	case "held-then-garbage":
		return []vfRawStep{{Kind: "delay", DelayMs: c15HeldMs}, {Kind: "bytes", Data: "\x16\x03\x01 this is not HTTP\r\n\r\n"}, {Kind: "close"}}
	case "head-then-close-short":
		return []vfRawStep{{Kind: "bytes", Data: "HTTP/1.1 200 OK\r\nContent-Length: 100\r\nX-Vf-Target: raw\r\n\r\n" + strings.Repeat("a", 40)}, {Kind: "delay", DelayMs: 5}, {Kind: "close"}}
	case "head-then-reset":
		return []vfRawStep{{Kind: "bytes", Data: "HTTP/1.1 200 OK\r\nContent-Length: 100\r\nX-Vf-Target: raw\r\n\r\n" + strings.Repeat("a", 40)}, {Kind: "delay", DelayMs: 5}, {Kind: "reset"}}
	case "chunk-partial-close":
		return []vfRawStep{{Kind: "bytes", Data: "HTTP/1.1 200 OK\r\nTransfer-Encoding: chunked\r\nX-Vf-Target: raw\r\n\r\n10\r\n0123456789abcdef\r\n20\r\nshort"}, {Kind: "delay", DelayMs: 5}, {Kind: "close"}}
	case "head-only-close":
		return []vfRawStep{{Kind: "bytes", Data: "HTTP/1.1 200 OK\r\nContent-Length: 100\r\nX-Vf-Target: raw\r\n\r\n"}, {Kind: "delay", DelayMs: 5}, {Kind: "close"}}
	}
	return nil
}

func c15Run(t *testing.T, p c15Plan) (res vfResult) {
	vfBubble(t, func(w *vfWorld) {
		rt := w.rawTarget("raw0:80")
		r := w.newRouter("r")
		to := vfFastTargetOptions()
		to.ResponseTimeout = vfMs(p.RespTimeoutMs)
		to.BufferRequests, to.BufferResponses, to.MaxMemoryBufferSize = p.BufReq, p.BufResp, 64
		spec, mount := vfSvcSpec{Name: "svc"}, ""
		if p.Prefix {
			spec.Prefixes, mount = []string{"/app"}, "/app"
			res.label("service-below-a-path-prefix")
		}
		opts := vfOpts{ErrPages: p.ErrPages, Strip: p.Prefix}.serviceOptions(spec, "")
		if err := vfDeploy(r, "svc", []string{"raw0:80"}, opts, to, 5*time.Second, time.Second); err != nil {
			res.failf("setup-failed", "deploy: %v", err)
			return
		}
		synctest.Wait()
		if p.Restart {
			nr := vfNewRouter(vfPathOf(r))
			if err := nr.RestoreLastSavedState(); err != nil {
				res.failf("restore-failed", "%v", err)
				return
			}
			vfRemove(r, "svc")
			w.adopt(nr)
			r = nr
			synctest.Wait()
			res.label("restored-from-state-file")
		}
		f := w.front(r, "front:80")
		timeout := vfMs(p.RespTimeoutMs)
		interesting := false
		if p.Burst > 0 {
			// many requests at once to a silent target: every one of them gets its 504 after one target timeout
			rt.setScripts(nil, []vfRawStep{{Kind: "stall"}})
			t0 := w.now()
			outs := make(chan *vfRawResp, p.Burst)
			for i := 0; i < p.Burst; i++ {
				go func() {
					outs <- f.rawExchange(c13ClientIP, [][]byte{[]byte(fmt.Sprintf("GET %s/burst%d HTTP/1.1\r\nHost: h.test\r\n\r\n", mount, i))}, nil, "GET", 0)
				}()
			}
			for i := 0; i < p.Burst; i++ {
				rp := <-outs
				if rp.Resp == nil || rp.Resp.StatusCode != 504 || rp.End != t0+timeout {
					res.failf("burst-not-prompt", "%d requests at once to a silent target (target-timeout %v): one got %v (head err %v) at %v, want 504 at exactly %v", p.Burst, timeout, c13Status(rp), rp.HeadErr, rp.End, t0+timeout)
					return
				}
			}
			synctest.Wait()
			res.label("burst")
			interesting = true
		}
		for i, rq := range p.Reqs {
			desc := fmt.Sprintf("request %d fault=%s delay=%dms (target-timeout=%v buf-req=%v buf-resp=%v err-pages=%d keep-alive=%v)", i, rq.Fault, rq.DelayMs, timeout, p.BufReq, p.BufResp, p.ErrPages, p.KeepAlive)
			method := "POST"
			if !p.KeepAlive && i%2 == 1 {
				method = "GET"
			}
			nseen := len(rt.seenCopy())
			switch rq.Fault {
			case "no-listener":
				rt.l.refuse = func() bool { return true }
				rt.closeConns() // the target process is gone: established connections die with it
				synctest.Wait()
			case "accept-close":
				rt.l.refuse = nil
				rt.closeConns()
				synctest.Wait()
				rt.setAcceptClose(1)
			default:
				rt.l.refuse = nil
			}
			rt.setScripts([][]vfRawStep{c15Script(rq, p.KeepAlive)}, nil)
			raw := fmt.Sprintf("%s %s/x%d HTTP/1.1\r\nHost: h.test\r\nContent-Length: 5\r\n\r\nhello", method, mount, i)
			if method == "GET" {
				raw = fmt.Sprintf("GET %s/x%d HTTP/1.1\r\nHost: h.test\r\n\r\n", mount, i)
			}
			start := w.now()
			var resp *vfRawResp
			if strings.HasPrefix(rq.Fault, "held-then-") && p.DrainCmd != "" && timeout > vfMs(c15HeldMs+vfRawThinkMs) {
				ch := make(chan *vfRawResp, 1)
				go func() { ch <- f.rawExchange(c13ClientIP, [][]byte{[]byte(raw)}, nil, method, 0) }()
				time.Sleep(vfMs(c15HeldMs / 2))
				synctest.Wait()
				w.noteWait(5 * time.Second)
				cmd := w.goCmd(func() error {
					if p.DrainCmd == "pause" {
						return vfPause(r, "svc", 10*time.Second, 5*time.Second)
					}
					return vfStop(r, "svc", 10*time.Second, "closed")
				})
				resp = <-ch
				<-cmd.done
				if cmd.res.Err != nil || cmd.res.Panicked != "" {
					res.failf("setup-failed", "%s: %s while the request waited: %v %s", desc, p.DrainCmd, cmd.res.Err, cmd.res.Panicked)
					return
				}
				if cmd.res.End != resp.End {
					res.failf("drain-waits", "%s: the %s draining the target returned at %v, the failed request ended at %v", desc, p.DrainCmd, cmd.res.End, resp.End)
					return
				}
				if err := vfResume(r, "svc"); err != nil {
					res.failf("setup-failed", "%s: resume: %v", desc, err)
					return
				}
				res.label("target-fails-while-being-drained")
				interesting = true
			} else {
				resp = f.rawExchange(c13ClientIP, [][]byte{[]byte(raw)}, nil, method, 0)
			}
			synctest.Wait()
			rt.l.refuse = nil
			seen := rt.seenCopy()[nseen:]
			// instant the target had the whole request (when it got one)
			var got time.Duration = -1
			if len(seen) > 0 {
				got = seen[len(seen)-1].BodyAt
			}
			wantStatus, wantAt := 0, time.Duration(-1)
			before := true // fault before a complete header block
			switch rq.Fault {
			case "none":
				wantStatus = 200
			case "no-listener", "accept-close":
				wantStatus, wantAt = 502, start
			case "read-close", "reset", "garbage", "partial-status", "partial-headers-close", "partial-headers-reset", "early-then-reset", "early-then-garbage":
				wantStatus, wantAt = 502, got+vfMs(vfRawThinkMs)
			case "held-then-close", "held-then-reset", "held-then-garbage":
				if held := vfMs(c15HeldMs + vfRawThinkMs); held < timeout {
					wantStatus, wantAt = 502, got+held
				} else if held > timeout {
					wantStatus, wantAt = 504, got+timeout
				} else {
					wantStatus = -1
				}
			case "partial-headers-stall", "silence", "early-then-silence":
				wantStatus, wantAt = 504, got+timeout
			case "late-head":
				eff := vfMs(rq.DelayMs + vfRawThinkMs) // the head leaves the target this long after it had the request
				switch {
				case eff < timeout:
					wantStatus = 200
				case eff > timeout:
					wantStatus, wantAt = 504, got+timeout
				default:
					wantStatus = -1 // tie
				}
			default:
				before = false
			}
			if len(seen) > 1 {
				res.failf("forwarded-twice", "%s: the target saw the request %d times", desc, len(seen))
				return
			}
			if before {
				if resp.HeadErr != nil || resp.Resp == nil {
					res.failf("no-wellformed-response", "%s: client could not parse a response (%v), raw=%q", desc, resp.HeadErr, c13Trunc(resp.Raw))
					return
				}
				st := resp.Resp.StatusCode
				if wantStatus == -1 {
					if st != 200 && st != 504 && !(st == 502 && strings.HasPrefix(rq.Fault, "held-then-")) {
						res.failf("wrong-status", "%s: client got %d, want 200 or 504 (tie)", desc, st)
						return
					}
					res.label("tie-at-target-timeout")
					continue
				}
				if st != wantStatus {
					res.failf(fmt.Sprintf("wrong-status:%s", rq.Fault), "%s: client got %d, want %d; body=%q", desc, st, wantStatus, c13Trunc(resp.Body))
					return
				}
				if !resp.complete() {
					res.failf("error-response-incomplete", "%s: the %d response is not a complete message (%v)", desc, st, resp.BodyErr)
					return
				}
				if wantAt >= 0 && resp.End != wantAt {
					res.failf("not-prompt", "%s: client got its %d at %v, want exactly %v (request sent %v, target had it at %v)", desc, st, resp.End, wantAt, start, got)
					return
				}
				if st >= 500 {
					body := string(resp.Body)
					custom := p.ErrPages == 1 && st == 502
					if custom && body != "<html>VF-CUSTOM-502</html>" {
						res.failf("wrong-error-page", "%s: the custom 502 page must be sent exactly as written (%d bytes), got %d bytes: %q", desc, len("<html>VF-CUSTOM-502</html>"), len(body), c13Trunc(resp.Body))
						return
					}
					if custom != strings.Contains(body, "VF-CUSTOM-502") {
						res.failf("wrong-error-page", "%s: custom page expected=%v, body=%q", desc, custom, c13Trunc(resp.Body))
						return
					}
					if !custom && (!strings.Contains(body, fmt.Sprintf("<title>%d", st)) || strings.Count(body, "<title>") != 1) {
						res.failf("wrong-error-page", "%s: built-in %d page expected, body=%q", desc, st, c13Trunc(resp.Body))
						return
					}
					if ct := resp.Resp.Header.Get("Content-Type"); !strings.HasPrefix(ct, "text/html") {
						res.failf("wrong-error-page", "%s: error page Content-Type %q", desc, ct)
						return
					}
				}
				if vfMs(rq.DelayMs) != 0 && abs(vfMs(rq.DelayMs+vfRawThinkMs)-timeout) <= time.Millisecond {
					interesting = true
				}
			} else {
				interesting = true
				if resp.complete() && !(rq.Fault == "head-only-close" && false) {
					res.failf("truncated-presented-complete:"+rq.Fault, "%s: the target failed after its header block, yet the client received a complete response: status=%d body=%q", desc, c13Status(resp), c13Trunc(resp.Body))
					return
				}
				res.label("cut-short:" + rq.Fault)
			}
			// nothing left behind
			for _, tg := range r.services.Get("svc").active.Targets() {
				tg.inflightLock.Lock()
				n := len(tg.inflight)
				tg.inflightLock.Unlock()
				if n != 0 {
					res.failf("inflight-residue", "%s: %d in-flight entries remain at the target after the request ended", desc, n)
					return
				}
			}
			res.label("fault:" + rq.Fault)
		}
		// the proxy keeps serving, and a drain does not wait for the failed requests
		rt.setScripts(nil, []vfRawStep{{Kind: "bytes", Data: c15OKClose}, {Kind: "close"}})
		resp := f.rawExchange(c13ClientIP, [][]byte{[]byte("GET " + mount + "/after HTTP/1.1\r\nHost: h.test\r\n\r\n")}, nil, "GET", 0)
		if !resp.complete() || resp.Resp.StatusCode != 200 {
			res.failf("not-serving-afterwards", "after the faults a healthy request got %v (err %v/%v)", c13Status(resp), resp.HeadErr, resp.BodyErr)
			return
		}
		synctest.Wait()
		t0 := w.now()
		pc := w.runCmd(func() error { return vfPause(r, "svc", 10*time.Second, time.Second) })
		if pc.Err != nil || pc.Panicked != "" || w.now() != t0 {
			res.failf("drain-waits", "pause after the faults took %v (err=%v panic=%q), want 0: a failed request was left in flight", w.now()-t0, pc.Err, pc.Panicked)
			return
		}
		vfResume(r, "svc")
		if files := w.spillFiles(); len(files) != 0 {
			res.failf("spill-left", "spill files remain: %v", files)
			return
		}
		res.NonTrivial = interesting
	})
	return res
}

func abs(d time.Duration) time.Duration {
	if d < 0 {
		return -d
	}
	return d
}

func TestVF_C15(t *testing.T) {
	vfCheck(t, vfProp[c15Plan]{id: "C15", gen: c15Gen, run: c15Run})
}
