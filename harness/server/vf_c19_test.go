//go:build verif && go1.25

package server

// C19 — each request yields exactly one access-log record that matches what happened.

import (
	"bufio"
	"context"
	"fmt"
	"net/http"
	"net/url"
	"strings"
	"testing"
	"testing/synctest"
	"time"

	"pgregory.net/rapid"
)

type c19Req struct {
	Ending   string      `json:"ending"`
	Method   string      `json:"method"`
	Path     string      `json:"path"`
	Query    string      `json:"query"`
	Headers  []c13Header `json:"headers"`
	RespSize int         `json:"resp_size"`
	Status   int         `json:"status"`
	ReqID    string      `json:"req_id"`
}

type c19Plan struct {
	LogReq  []string `json:"log_req"`
	LogResp []string `json:"log_resp"`
	Reqs    []c19Req `json:"reqs"`
	Restart bool     `json:"restart,omitempty"` // the proxy is restarted from its state file before the requests
	Mount   bool     `json:"mount,omitempty"` // every service sits below /app (prefix stripped before forwarding, the CLI default)
}

var c19Endings = []string{"served", "served", "served", "not-found", "paused-out", "stopped", "redirect", "tls-refused", "target-down", "target-silent",
	"too-large", "resp-overflow", "client-abort", "upgrade", "sse", "target-cut-mid-body", "early-hints"}

func c19Gen(t *rapid.T) c19Plan {
	p := c19Plan{}
	p.LogReq = rapid.SampledFrom([][]string{nil, {"X-Custom_Header"}, {"accept", "x-absent"}, {"Cookie", "X-UTF8", "User-Agent"}}).Draw(t, "log-req")
	p.LogResp = rapid.SampledFrom([][]string{nil, {"x-vf-target"}, {"Set-Cookie", "X-Absent"}, {"content-type", "cache-control"}}).Draw(t, "log-resp")
	p.Mount = rapid.IntRange(0, 2).Draw(t, "mount") == 0
	p.Restart = rapid.IntRange(0, 3).Draw(t, "restart") == 0
	n := rapid.IntRange(1, 5).Draw(t, "nreqs")
	for i := 0; i < n; i++ {
		rq := c19Req{Ending: rapid.SampledFrom(c19Endings).Draw(t, "ending")}
		rq.Method = rapid.SampledFrom([]string{"GET", "GET", "POST", "PUT", "DELETE", "PURGE"}).Draw(t, "method")
		rq.Path = rapid.SampledFrom([]string{"/", "/x", "/a%2Fb", "/caf%C3%A9", "/x/y/", "//d", "/q;p=1"}).Draw(t, "path")
		rq.Query = rapid.SampledFrom(c13Queries).Draw(t, "query")
		if strings.Contains(rq.Query, "#") {
			rq.Query = "?a=1"
		}
		nh := rapid.IntRange(0, 6).Draw(t, "nheaders")
		for j := 0; j < nh; j++ {
			h := rapid.SampledFrom(c13ReqHeaders).Draw(t, "header")
			switch strings.ToLower(h.Name) {
			case "connection", "x-hop", "te", "keep-alive", "x-request-id", "range", "if-none-match", "content-type", "proxy-authorization":
				continue
			}
			rq.Headers = c13AddHeader(rq.Headers, h)
		}
		rq.RespSize = rapid.SampledFrom([]int{0, 1, 100, 4096, 100000}).Draw(t, "resp-size")
		rq.Status = rapid.SampledFrom([]int{200, 201, 404, 500, 503}).Draw(t, "status")
		if rapid.Bool().Draw(t, "own-id") {
			rq.ReqID = fmt.Sprintf("client-%d", i)
		}
		p.Reqs = append(p.Reqs, rq)
	}
	return p
}

func c19Run(t *testing.T, p c19Plan) (res vfResult) {
	vfBubble(t, func(w *vfWorld) {
		vfFixtures()
		main := w.rawTarget("raw0:80")
		w.rawTarget("raw1:80")
		w.target("ta0:80")
		r := w.newRouter("r")
		deploy := func(name, host, target string, mod func(*ServiceOptions, *TargetOptions)) bool {
			so := ServiceOptions{Hosts: []string{host}, TLSRedirect: true}
			to := vfFastTargetOptions()
			to.LogRequestHeaders = append([]string(nil), p.LogReq...)
			to.LogResponseHeaders = append([]string(nil), p.LogResp...)
			to.ResponseTimeout = 400 * time.Millisecond
			if p.Mount {
				so.PathPrefixes, so.StripPrefix = []string{"/app"}, true
			}
			if mod != nil {
				mod(&so, &to)
			}
			if so.TLSEnabled {
				so.PathPrefixes, so.StripPrefix = nil, false // TLS belongs to the service on the root path
			}
			so.Normalize()
			if err := vfDeploy(r, name, []string{target}, so, to, 5*time.Second, time.Second); err != nil {
				res.failf("setup-failed", "deploy %s: %v", name, err)
				return false
			}
			return true
		}
		ok := deploy("main", "main.test", "raw0:80", nil) &&
			deploy("buf", "buf.test", "raw1:80", func(so *ServiceOptions, to *TargetOptions) {
				to.BufferRequests, to.BufferResponses, to.MaxMemoryBufferSize, to.MaxRequestBodySize, to.MaxResponseBodySize = true, true, 64, 100, 200
			}) &&
			deploy("paused", "paused.test", "ta0:80", nil) &&
			deploy("stopped", "stopped.test", "ta0:80", nil) &&
			deploy("hand", "hand.test", "ta0:80", nil) &&
			deploy("secure", "secure.test", "ta0:80", func(so *ServiceOptions, to *TargetOptions) {
				so.TLSEnabled, so.TLSCertificatePath, so.TLSPrivateKeyPath = true, vfFix.cert, vfFix.key
			})
		if !ok {
			return
		}
		w.noteWait(300 * time.Millisecond)
		vfPause(r, "paused", time.Second, 300*time.Millisecond)
		vfStop(r, "stopped", time.Second, "closed")
		synctest.Wait()
		if p.Restart {
			nr := vfNewRouter(vfPathOf(r))
			if err := nr.RestoreLastSavedState(); err != nil {
				res.failf("restore-failed", "%v", err)
				return
			}
			for _, n := range []string{"main", "buf", "paused", "stopped", "hand", "secure"} {
				vfRemove(r, n)
			}
			w.adopt(nr)
			r = nr
			synctest.Wait()
			res.label("restored-from-state-file")
		}
		f := w.front(r, "front:80")

		records := func(from int) []vfLogRec {
			var out []vfLogRec
			for _, l := range w.logsCopy()[from:] {
				if l.Msg == "Request" {
					out = append(out, l)
				}
			}
			return out
		}
		canon := func(names []string) []string {
			var out []string
			for _, n := range names {
				out = append(out, http.CanonicalHeaderKey(n))
			}
			return out
		}
		other := false
		for i, rq := range p.Reqs {
			mark := len(w.logsCopy())
			host, svc, target := "main.test", "main", "raw0:80"
			wantStatus := rq.Status
			var body []byte
			hdrs := append([]c13Header(nil), rq.Headers...)
			tls := false
			respBody := c13Body(rq.RespSize, 4)
			script := []vfRawStep{{Kind: "bytes", Data: fmt.Sprintf("HTTP/1.1 %d X\r\nContent-Length: %d\r\nX-Vf-Target: raw\r\nSet-Cookie: a=1\r\nSet-Cookie: b=2\r\nCache-Control: no-store\r\nContent-Type: text/x-vf\r\n\r\n%s", rq.Status, len(respBody), respBody)}}
			respHeaders := http.Header{"X-Vf-Target": {"raw"}, "Set-Cookie": {"a=1", "b=2"}, "Cache-Control": {"no-store"}, "Content-Type": {"text/x-vf"}}
			wantLen := int64(len(respBody))
			abortAfterMs := 0
			method := rq.Method
			switch rq.Ending {
			case "served":
			case "not-found":
				host, svc, target, wantStatus, wantLen, respHeaders = "nobody.test", "", "", 404, -1, nil
			case "paused-out":
				host, svc, target, wantStatus, wantLen, respHeaders = "paused.test", "paused", "", 504, -1, nil
			case "stopped":
				host, svc, target, wantStatus, wantLen, respHeaders = "stopped.test", "stopped", "", 503, -1, nil
			case "redirect":
				host, svc, target, wantStatus, wantLen, respHeaders = "secure.test", "secure", "", 301, -1, nil
			case "tls-refused":
				tls, svc, target, wantStatus, wantLen, respHeaders = true, "main", "", 503, -1, nil
			case "target-down":
				script = []vfRawStep{{Kind: "reset"}}
				wantStatus, wantLen, respHeaders = 502, -1, nil
			case "target-silent":
				script = []vfRawStep{{Kind: "stall"}}
				wantStatus, wantLen, respHeaders = 504, -1, nil
			case "too-large":
				host, svc, target, wantStatus, wantLen, respHeaders = "buf.test", "buf", "raw1:80", 413, -1, nil
				method = "POST"
				body = c13Body(101, 1)
			case "resp-overflow":
				host, svc, target, wantStatus, wantLen, respHeaders = "buf.test", "buf", "raw1:80", 500, -1, nil
				respBody = c13Body(201, 4)
				script = []vfRawStep{{Kind: "bytes", Data: fmt.Sprintf("HTTP/1.1 200 OK\r\nContent-Length: 201\r\nContent-Type: text/x-vf\r\n\r\n%s", respBody)}}
			case "client-abort":
				script = []vfRawStep{{Kind: "delay", DelayMs: 300}, script[0]}
				abortAfterMs = 100
				wantStatus, wantLen, respHeaders = 499, 0, nil
			case "sse":
				script = []vfRawStep{{Kind: "bytes", Data: "HTTP/1.1 200 OK\r\nContent-Type: text/event-stream\r\nX-Vf-Target: raw\r\n\r\ndata: 1\n\n"}, {Kind: "delay", DelayMs: 50}, {Kind: "bytes", Data: "data: 2\n\n"}, {Kind: "close"}}
				wantStatus, wantLen = 200, 18
				respHeaders = http.Header{"X-Vf-Target": {"raw"}, "Content-Type": {"text/event-stream"}}
			case "upgrade":
				host, svc, target, wantStatus, wantLen, respHeaders = "hand.test", "hand", "ta0:80", 101, 0, nil
				method = "GET"
			case "target-cut-mid-body":
				// full header block, part of the promised body, then the connection is reset: the proxy's handler aborts
				script = []vfRawStep{{Kind: "bytes", Data: "HTTP/1.1 200 OK\r\nContent-Length: 50000\r\nX-Vf-Target: raw\r\nContent-Type: text/x-vf\r\n\r\n" + strings.Repeat("z", 20000)}, {Kind: "delay", DelayMs: 5}, {Kind: "reset"}}
				wantStatus, wantLen = 200, -2
				respHeaders = http.Header{"X-Vf-Target": {"raw"}, "Content-Type": {"text/x-vf"}}
			case "early-hints":
				// an interim response first: the record carries the final status
				script = append([]vfRawStep{{Kind: "bytes", Data: "HTTP/1.1 103 Early Hints\r\nLink: </s.css>; rel=preload\r\n\r\n"}, {Kind: "delay", DelayMs: 3}}, script...)
			}
			if rq.Ending != "served" {
				other = true
			}
			rt := main
			if target == "raw1:80" {
				rt = w.rawTargetByName("raw1:80")
			}
			if rt != nil {
				rt.setScripts([][]vfRawStep{script}, nil)
			}
			if rq.Ending == "target-down" || rq.Ending == "target-silent" {
				main.closeConns()
				synctest.Wait()
			}
			mount := ""
			if p.Mount && rq.Ending != "not-found" && host != "secure.test" {
				mount = "/app"
			}
			reqTarget := mount + rq.Path + rq.Query
			var sb strings.Builder
			fmt.Fprintf(&sb, "%s %s HTTP/1.1\r\nHost: %s\r\n", method, reqTarget, host)
			for _, hd := range hdrs {
				fmt.Fprintf(&sb, "%s: %s\r\n", hd.Name, hd.Value)
			}
			if rq.ReqID != "" {
				fmt.Fprintf(&sb, "X-Request-Id: %s\r\n", rq.ReqID)
			}
			if tls {
				sb.WriteString("X-Vf-Tls: 1\r\n")
			}
			if rq.Ending == "upgrade" {
				ctl := vfCtl{ID: "up", Upgrade: true}
				fmt.Fprintf(&sb, "Connection: Upgrade\r\nUpgrade: vf-echo\r\nX-Vf: %s\r\n", ctl.header())
			}
			if body != nil || (method != "GET" && method != "DELETE") {
				fmt.Fprintf(&sb, "Content-Length: %d\r\n\r\n", len(body))
				sb.Write(body)
			} else {
				sb.WriteString("\r\n")
			}
			desc := fmt.Sprintf("request %d ending=%s %s %s Host=%s", i, rq.Ending, method, reqTarget, host)

			var resp *vfRawResp
			switch {
			case rq.Ending == "upgrade":
				conn, err := w.net.DialFrom(context.Background(), c13ClientIP, "front:80")
				if err != nil {
					res.failf("harness", "dial: %v", err)
					return
				}
				conn.Write([]byte(sb.String()))
				br := bufio.NewReader(conn)
				hr, err := http.ReadResponse(br, &http.Request{Method: "GET"})
				if err != nil || hr.StatusCode != 101 {
					res.failf("upgrade-failed", "%s: %v %v", desc, err, hr)
					conn.Close()
					return
				}
				conn.Write([]byte("ping"))
				buf := make([]byte, 4)
				readFull(br, buf)
				synctest.Wait()
				if n := len(records(mark)); n != 0 {
					res.failf("record-before-end", "%s: %d access-log record(s) emitted while the upgraded connection is still open", desc, n)
					conn.Close()
					return
				}
				conn.Close()
			case abortAfterMs > 0:
				conn, err := w.net.DialFrom(context.Background(), c13ClientIP, "front:80")
				if err != nil {
					res.failf("harness", "dial: %v", err)
					return
				}
				conn.Write([]byte(sb.String()))
				time.Sleep(vfMs(abortAfterMs))
				conn.Reset()
				time.Sleep(500 * time.Millisecond)
			default:
				resp = f.rawExchange(c13ClientIP, [][]byte{[]byte(sb.String())}, nil, method, 0)
			}
			synctest.Wait()
			recs := records(mark)
			if len(recs) != 1 {
				res.failf(fmt.Sprintf("record-count:%d", len(recs)), "%s: %d access-log records, want exactly 1: %v", desc, len(recs), recs)
				return
			}
			rec := recs[0].Attrs
			if resp != nil {
				if resp.Resp == nil {
					res.failf("harness", "%s: client got no response: %v", desc, resp.HeadErr)
					return
				}
				if resp.Resp.StatusCode != wantStatus {
					res.failf("harness-expectation", "%s: client received %d, scenario expects %d", desc, resp.Resp.StatusCode, wantStatus)
					return
				}
				if wantLen == -1 {
					wantLen = int64(len(resp.Body))
				}
			}
			u, _ := url.ParseRequestURI(reqTarget)
			wantPath, wantQuery := mount+rq.Path, strings.TrimPrefix(rq.Query, "?")
			if u != nil {
				wantPath, wantQuery = u.Path, u.RawQuery
			}
			check := func(key string, want any) bool {
				if fmt.Sprint(rec[key]) != fmt.Sprint(want) {
					res.failf("record-field:"+key, "%s: access-log %s=%v, what actually happened: %v; record=%v", desc, key, rec[key], want, rec)
					return false
				}
				return true
			}
			if !check("status", wantStatus) || !check("method", method) || !check("host", host) || !check("path", wantPath) || !check("query", wantQuery) ||
				!check("service", svc) || !check("target", target) {
				return
			}
			if wantLen == -2 {
				// aborted response: the record counts what was written before the abort, at least what the client got
				n, _ := rec["resp_content_length"].(int64)
				if resp != nil && n < int64(len(resp.Body)) {
					res.failf("record-field:resp_content_length", "%s: access-log resp_content_length=%d, but the client received %d body bytes before the response was cut", desc, n, len(resp.Body))
					return
				}
			} else {
				if got := fmt.Sprint(rec["resp_content_length"]); got != fmt.Sprint(wantLen) {
					res.failf("record-field:resp_content_length", "%s: access-log resp_content_length=%s, the client received %d body bytes; record=%v", desc, got, wantLen, rec)
					return
				}
			}
			rid := fmt.Sprint(rec["request_id"])
			if rq.ReqID != "" {
				if rid != rq.ReqID {
					res.failf("record-field:request_id", "%s: access-log request_id=%q, client sent %q", desc, rid, rq.ReqID)
					return
				}
			} else if len(rid) < 8 {
				res.failf("record-field:request_id", "%s: access-log request_id=%q, want the generated id", desc, rid)
				return
			}
			if target == "raw0:80" || target == "raw1:80" {
				// the id the target saw is the id that was logged
				rtt := main
				if target == "raw1:80" {
					rtt = w.rawTargetByName("raw1:80")
				}
				if seen := rtt.seenCopy(); len(seen) > 0 && seen[len(seen)-1].Req != nil && rq.Ending != "too-large" {
					if tid := seen[len(seen)-1].Req.Header.Get("X-Request-Id"); tid != rid {
						res.failf("record-field:request_id", "%s: access-log request_id=%q but the target received %q", desc, rid, tid)
						return
					}
				}
			}
			// configured extra headers (only once a target was reached: the lists belong to the target options)
			if target != "" {
				for _, name := range canon(p.LogReq) {
					key := "req_" + strings.ReplaceAll(strings.ToLower(name), "-", "_")
					want := strings.Join(c13Values(hdrs, name), ",")
					if !check(key, want) {
						return
					}
				}
				if respHeaders != nil {
					for _, name := range canon(p.LogResp) {
						key := "resp_" + strings.ReplaceAll(strings.ToLower(name), "-", "_")
						want := strings.Join(respHeaders[name], ",")
						if resp != nil {
							want = strings.Join(resp.Resp.Header[name], ",")
						}
						if !check(key, want) {
							return
						}
					}
				}
			}
			res.label("ending:" + rq.Ending)
		}
		res.NonTrivial = other
	})
	return res
}

func TestVF_C19(t *testing.T) {
	vfCheck(t, vfProp[c19Plan]{id: "C19", gen: c19Gen, run: c19Run})
}
