//go:build verif && go1.25

package server

// Owned schedule: actors (requests, commands, probe goroutines) park at named program points
// (the verifPoint hooks); the controller waits for quiescence and then decides, from recorded
// choices, who runs next or how far the clock moves.

import (
	"fmt"
	"runtime"
	"sort"
	"strconv"
	"strings"
	"sync"
	"sync/atomic"
	"testing/synctest"
	"time"
)

type vfEvent struct {
	Seq   int
	At    time.Duration
	Actor string
	Kind  string // point | park | release | start | end
	Point string
}

type vfParked struct {
	actor, point string
	ch           chan struct{}
	args         []any
}

type vfSched struct {
	w  *vfWorld
	mu sync.Mutex

	byGID    map[uint64]string
	parked   map[string]*vfParked
	finished map[string]bool
	started  map[string]bool
	points   map[string]bool // point names at which registered actors park
	probePts map[string]bool // point names at which probe goroutines park
	off      bool
	events   []vfEvent
	// observe, when set, is called (on the goroutine that reached the hook, before anything else) for every hook
	// point reached by anybody - also while the controller is off
	observe func(point string)

	// spin barrier: actors reaching spinPoint do not park on a channel but spin until spinGo is set, so that they
	// all leave within nanoseconds of each other (for races whose window has no hook inside)
	spinPoint   string
	spinArrived atomic.Int32
	spinGo      atomic.Bool
	// spinAuto: nobody opens the barrier from outside; the first to arrive waits until no further actor has arrived
	// for a few thousand iterations and then lets everybody (itself included) go at once. For goroutines the
	// harness does not start itself: probe results that change several targets at the same virtual instant.
	spinAuto bool
	spinGen  atomic.Uint32
}

func newVFSched(w *vfWorld, points []string, probePoints []string) *vfSched {
	s := &vfSched{w: w, byGID: map[uint64]string{}, parked: map[string]*vfParked{}, finished: map[string]bool{}, started: map[string]bool{},
		points: map[string]bool{}, probePts: map[string]bool{}}
	for _, p := range points {
		s.points[p] = true
	}
	for _, p := range probePoints {
		s.probePts[p] = true
	}
	vfCurSched.Store(s)
	w.sched = s
	return s
}

func vfGoID() uint64 {
	var buf [64]byte
	n := runtime.Stack(buf[:], false)
	// "goroutine 123 ["
	f := strings.Fields(string(buf[:n]))
	if len(f) < 2 {
		return 0
	}
	id, _ := strconv.ParseUint(f[1], 10, 64)
	return id
}

func (s *vfSched) logLocked(actor, kind, point string) int {
	ev := vfEvent{Seq: len(s.events), At: s.w.now(), Actor: actor, Kind: kind, Point: point}
	s.events = append(s.events, ev)
	return ev.Seq
}

// point is reached from the verifPoint hooks through the process-wide dispatcher.
func (s *vfSched) point(name string, args ...any) {
	gid := vfGoID()
	s.mu.Lock()
	if obs := s.observe; obs != nil {
		s.mu.Unlock()
		obs(name)
		s.mu.Lock()
	}
	actor := s.byGID[gid]
	isProbe := false
	if actor == "" && s.probePts[name] && len(args) > 0 {
		if tg, ok := args[0].(*Target); ok {
			actor = "probe:" + tg.Target()
			isProbe = true
		}
	}
	if actor == "" {
		s.logLocked("?", "point", name)
		s.mu.Unlock()
		return
	}
	s.logLocked(actor, "point", name)
	if name == s.spinPoint && !s.off && s.spinAuto {
		s.mu.Unlock()
		gen := s.spinGen.Load()
		if s.spinArrived.Add(1) == 1 {
			last, stable := int32(1), 0
			for stable < 4000 {
				if a := s.spinArrived.Load(); a != last {
					last, stable = a, 0
				} else {
					stable++
				}
			}
			s.spinArrived.Store(0)
			s.spinGen.Add(1)
			return
		}
		for s.spinGen.Load() == gen {
			// busy wait on purpose
		}
		return
	}
	if name == s.spinPoint && !s.off {
		s.mu.Unlock()
		s.spinArrived.Add(1)
		for !s.spinGo.Load() {
			// busy wait on purpose (never more actors than half the cores)
		}
		return
	}
	if s.off || !(s.points[name] && !isProbe || s.probePts[name] && isProbe) {
		s.mu.Unlock()
		return
	}
	if _, dup := s.parked[actor]; dup {
		// two goroutines of one probe name (old and new generation): let the second through
		s.mu.Unlock()
		return
	}
	p := &vfParked{actor: actor, point: name, ch: make(chan struct{}), args: args}
	s.parked[actor] = p
	s.logLocked(actor, "park", name)
	s.mu.Unlock()
	<-p.ch
}

// spawn runs fn as the named actor.
func (s *vfSched) spawn(actor string, fn func()) {
	s.mu.Lock()
	s.started[actor] = true
	s.logLocked(actor, "start", "")
	s.mu.Unlock()
	s.w.wg.Add(1)
	go func() {
		defer s.w.wg.Done()
		gid := vfGoID()
		s.mu.Lock()
		s.byGID[gid] = actor
		s.mu.Unlock()
		defer func() {
			s.mu.Lock()
			delete(s.byGID, gid)
			s.finished[actor] = true
			s.logLocked(actor, "end", "")
			s.mu.Unlock()
		}()
		fn()
	}()
}

func (s *vfSched) parkedActors() []string {
	s.mu.Lock()
	defer s.mu.Unlock()
	var out []string
	for a := range s.parked {
		out = append(out, a)
	}
	sort.Strings(out)
	return out
}

func (s *vfSched) parkedAt(actor string) string {
	s.mu.Lock()
	defer s.mu.Unlock()
	if p := s.parked[actor]; p != nil {
		return p.point
	}
	return ""
}

// releasedFrom reports whether some actor's latest event is its release from the named point ("" = any point): it is on its way from
// there to its next point (running, or blocked on something the scheduler cannot see).
func (s *vfSched) releasedFrom(point string) bool {
	s.mu.Lock()
	defer s.mu.Unlock()
	last := map[string]vfEvent{}
	for _, ev := range s.events {
		if ev.Actor != "?" {
			last[ev.Actor] = ev
		}
	}
	for _, ev := range last {
		if ev.Kind == "release" && (point == "" || ev.Point == point) {
			return true
		}
	}
	return false
}

func (s *vfSched) isFinished(actor string) bool {
	s.mu.Lock()
	defer s.mu.Unlock()
	return s.finished[actor]
}

func (s *vfSched) isStarted(actor string) bool {
	s.mu.Lock()
	defer s.mu.Unlock()
	return s.started[actor]
}

func (s *vfSched) release(actor string) {
	s.mu.Lock()
	p := s.parked[actor]
	if p != nil {
		delete(s.parked, actor)
		s.logLocked(actor, "release", p.point)
	}
	s.mu.Unlock()
	if p != nil {
		close(p.ch)
	}
}

// stop disables parking and releases everybody.
func (s *vfSched) stop() {
	s.mu.Lock()
	s.off = true
	ps := s.parked
	s.parked = map[string]*vfParked{}
	for a, p := range ps {
		s.logLocked(a, "release", p.point)
	}
	s.mu.Unlock()
	for _, p := range ps {
		close(p.ch)
	}
}

func (s *vfSched) eventsCopy() []vfEvent {
	s.mu.Lock()
	defer s.mu.Unlock()
	return append([]vfEvent(nil), s.events...)
}

// firstSeq / lastSeq: sequence number of the first / last matching event (-1 if none).
func vfFirstSeq(evs []vfEvent, actor, kind, point string) int {
	for _, e := range evs {
		if e.Actor == actor && e.Kind == kind && (point == "" || e.Point == point) {
			return e.Seq
		}
	}
	return -1
}

func vfLastSeq(evs []vfEvent, actor, kind, point string) int {
	out := -1
	for _, e := range evs {
		if e.Actor == actor && e.Kind == kind && (point == "" || e.Point == point) {
			out = e.Seq
		}
	}
	return out
}

func vfTrace(evs []vfEvent) string {
	var sb strings.Builder
	for _, e := range evs {
		if e.Kind == "point" && e.Actor == "?" {
			continue
		}
		fmt.Fprintf(&sb, "  #%d %v %s %s %s\n", e.Seq, e.At, e.Actor, e.Kind, e.Point)
	}
	return sb.String()
}

// vfMove is one thing the controller can do at a quiescent instant.
type vfMove struct {
	Kind  string // release | start | advance
	Actor string
	D     time.Duration
}

func (m vfMove) String() string {
	if m.Kind == "advance" {
		return fmt.Sprintf("advance(%v)", m.D)
	}
	return m.Kind + "(" + m.Actor + ")"
}

// pick chooses among moves with the next recorded choice; PCT-style when prio is non-nil: the enabled
// actor move with the highest priority wins unless the choice says "advance".
func vfPickMove(moves []vfMove, choice int, prio map[string]int) vfMove {
	if prio == nil {
		return moves[choice%len(moves)]
	}
	// one in four choices is spent on a non-priority pick to keep the clock and starts moving
	if choice%4 == 0 {
		return moves[(choice/4)%len(moves)]
	}
	best, bestP := -1, -1
	for i, m := range moves {
		if m.Kind == "advance" {
			continue
		}
		if p := prio[m.Actor]; p > bestP {
			best, bestP = i, p
		}
	}
	if best < 0 {
		return moves[choice%len(moves)]
	}
	return moves[best]
}

func vfSettle() { synctest.Wait() }
