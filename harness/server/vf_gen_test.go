//go:build verif && go1.25

package server

// Generators for command histories that are valid by construction (the reference model runs at
// generation time, so every generated command has a known applicable outcome).

import (
	"fmt"

	"pgregory.net/rapid"
)

var (
	vfActivePool  = []string{"ta0:80", "ta1:80", "ta2:80", "ta3:80"}
	vfRolloutPool = []string{"tr0:80", "tr1:80", "tr2:80"}
	vfFailPool    = []string{"tf0:80", "tf1:80"}
	vfDeadPool    = []string{"dead0:80", "dead1:80"}
	vfBadTargets  = []string{"x", "bad target:80", "http://ta0:80", "ta0:", ":80", "-ta0:80", "ta0:8o"}
	vfStopMsgs    = []string{"", "down for maintenance", "<b>back & soon</b>", "{{ .Message }}", "a\"b'c",
		// what a terminal may paste: escape sequences, control characters, runes outside the basic plane (all valid UTF-8)
		"\x1b[31mred\x1b[0m", "bell\a tab\t vt\v del\x7f", "line one\nline two", "tag \U000e0001 emoji \U0001f6a7 caf\u00e9", "back\\slash \u2028 sep"}
)

func vfAllTargets() []string {
	var out []string
	out = append(out, vfActivePool...)
	out = append(out, vfRolloutPool...)
	out = append(out, vfFailPool...)
	out = append(out, vfTargetPool...)
	return out
}

// vfSetupWorldTargets creates every pool target (alive) and the dead ones (refusing).
func vfSetupWorldTargets(w *vfWorld) {
	for _, tn := range vfAllTargets() {
		w.target(tn)
	}
	for _, tn := range vfDeadPool {
		w.target(tn).setDown(true)
	}
}

func vfPick(t *rapid.T, pool []string, max int, label string) []string {
	n := rapid.IntRange(1, max).Draw(t, label+"-n")
	var out []string
	for i := 0; i < n; i++ {
		x := rapid.SampledFrom(pool).Draw(t, label)
		if !vfContains(out, x) {
			out = append(out, x)
		}
	}
	return out
}

type vfGenCfg struct {
	Options bool // draw non-default options
	TLS     bool // allow TLS options
	Pause   bool // allow pause (held requests make observation slower)
}

func vfGenOpts(t *rapid.T, spec vfSvcSpec, cfg vfGenCfg) vfOpts {
	o := vfOpts{}
	if !cfg.Options {
		return o
	}
	o.Strip = rapid.Bool().Draw(t, "strip")
	servesRoot := false
	for _, p := range spec.normPrefixes() {
		if p == "/" {
			servesRoot = true
		}
	}
	if cfg.TLS && len(spec.Hosts) > 0 && servesRoot && rapid.IntRange(0, 2).Draw(t, "tls?") == 0 {
		o.TLS = rapid.IntRange(1, 2).Draw(t, "tls-kind")
		if o.TLS == 2 {
			for _, h := range spec.Hosts {
				if len(h) > 0 && h[0] == '*' {
					o.TLS = 1
				}
			}
		}
		o.NoRedirect = rapid.Bool().Draw(t, "no-redirect")
	}
	o.ErrPages = rapid.SampledFrom([]int{0, 0, 1, 2}).Draw(t, "err-pages")
	if rapid.IntRange(0, 3).Draw(t, "hp?") == 0 {
		o.HealthPath = rapid.SampledFrom([]string{"/health", "/up/", "/"}).Draw(t, "health-path")
	}
	if rapid.IntRange(0, 2).Draw(t, "ivl?") == 0 {
		o.IntervalMs = rapid.SampledFrom([]int{200, 500, 2000}).Draw(t, "interval")
		o.ProbeTimeoutMs = rapid.SampledFrom([]int{100, 1000, 3000}).Draw(t, "probe-timeout")
	}
	if rapid.IntRange(0, 3).Draw(t, "rt?") == 0 {
		o.RespTimeoutMs = rapid.SampledFrom([]int{500, 2000, 10000}).Draw(t, "resp-timeout")
	}
	if rapid.IntRange(0, 2).Draw(t, "buf?") == 0 {
		o.BufReq = rapid.Bool().Draw(t, "buf-req")
		o.BufResp = rapid.Bool().Draw(t, "buf-resp")
		o.MaxMem = rapid.SampledFrom([]int64{0, 16, 1024}).Draw(t, "max-mem")
		if o.BufReq {
			o.MaxReq = rapid.SampledFrom([]int64{0, 10, 100, 5000}).Draw(t, "max-req")
		}
		if o.BufResp {
			o.MaxResp = rapid.SampledFrom([]int64{0, 10, 100, 5000}).Draw(t, "max-resp")
		}
	}
	o.Forward = rapid.Bool().Draw(t, "forward")
	if rapid.IntRange(0, 3).Draw(t, "log?") == 0 {
		o.LogReq = []string{"x-custom", "Accept"}
		o.LogResp = []string{"x-vf-target"}
	}
	return o
}

// vfGenOKCmd draws one command that the model accepts in its current state, and applies it.
func vfGenOKCmd(t *rapid.T, m *vfModel, cfg vfGenCfg) vfCmd {
	names := vfSortedKeys(m.Svcs)
	kinds := []string{"deploy-new"}
	if len(names) > 0 {
		kinds = append(kinds, "redeploy", "redeploy", "rollout-deploy", "rollout-set", "rollout-stop", "stop", "resume", "remove")
		if cfg.Pause {
			kinds = append(kinds, "pause")
		}
	}
	if len(names) >= len(vfSvcNames) {
		kinds = kinds[1:]
	}
	var c vfCmd
	for {
		kind := rapid.SampledFrom(kinds).Draw(t, "kind")
		var svc string
		if kind != "deploy-new" {
			svc = rapid.SampledFrom(names).Draw(t, "svc")
		}
		switch kind {
		case "deploy-new":
			for _, n := range vfSvcNames {
				if m.Svcs[n] == nil {
					svc = n
					break
				}
			}
			spec := vfFreeSpec(t, m, svc)
			c = vfCmd{Op: "deploy", Svc: svc, Spec: spec, Targets: vfPick(t, vfActivePool, 3, "target"), Opt: vfGenOpts(t, spec, cfg)}
		case "redeploy":
			spec := m.Svcs[svc].Spec
			if rapid.Bool().Draw(t, "rebind") {
				spec = vfFreeSpec(t, m, svc)
			}
			c = vfCmd{Op: "deploy", Svc: svc, Spec: spec, Targets: vfPick(t, vfActivePool, 3, "target"), Opt: vfGenOpts(t, spec, cfg)}
			if old := m.Svcs[svc]; old.Rollout != nil && rapid.IntRange(0, 9).Draw(t, "keep-target-options") > 0 {
				// steer around the listed finding (rollout targets keep the options they were created with): redeploy
				// with the target-level options unchanged
				tl := old.Opt.targetLevel()
				c.Opt.HealthPath, c.Opt.IntervalMs, c.Opt.ProbeTimeoutMs, c.Opt.RespTimeoutMs = tl.HealthPath, tl.IntervalMs, tl.ProbeTimeoutMs, tl.RespTimeoutMs
				c.Opt.BufReq, c.Opt.BufResp, c.Opt.MaxMem, c.Opt.MaxReq, c.Opt.MaxResp = tl.BufReq, tl.BufResp, tl.MaxMem, tl.MaxReq, tl.MaxResp
				c.Opt.Forward, c.Opt.LogReq, c.Opt.LogResp = tl.Forward, tl.LogReq, tl.LogResp
			}
		case "rollout-deploy":
			c = vfCmd{Op: "rollout-deploy", Svc: svc, Targets: vfPick(t, vfRolloutPool, 2, "rtarget")}
		case "rollout-set":
			if m.Svcs[svc].Rollout == nil {
				continue
			}
			c = vfCmd{Op: "rollout-set", Svc: svc, Pct: rapid.IntRange(0, 100).Draw(t, "pct")}
			if rapid.Bool().Draw(t, "allow?") {
				c.Allow = []string{"vip", "c3"}
			}
		case "rollout-stop":
			c = vfCmd{Op: "rollout-stop", Svc: svc}
		case "stop":
			c = vfCmd{Op: "stop", Svc: svc, Msg: rapid.SampledFrom(vfStopMsgs).Draw(t, "msg")}
		case "pause":
			c = vfCmd{Op: "pause", Svc: svc, MaxPauseMs: rapid.SampledFrom([]int{500, 2000, 30000, -1}).Draw(t, "max-pause")}
		case "resume":
			c = vfCmd{Op: "resume", Svc: svc}
		case "remove":
			c = vfCmd{Op: "remove", Svc: svc}
		}
		c.Spec.Name = c.Svc
		break
	}
	if got := m.apply(c); len(got) != 1 || got[0] != "ok" {
		panic(fmt.Sprintf("generator produced a command the model rejects: %s -> %v", c, got))
	}
	return c
}

// vfGenFailCmd draws a command that must fail in the model's current state.
func vfGenFailCmd(t *rapid.T, m *vfModel) vfCmd {
	names := vfSortedKeys(m.Svcs)
	unknown := "nosuch"
	kinds := []string{"unknown-service", "bad-target", "dead-target", "bad-cert", "bad-pages", "missing-pages", "tls-wildcard"}
	if len(names) > 0 {
		kinds = append(kinds, "rollout-set-no-targets", "rollout-dead", "rollout-bad", "conflict", "conflict", "redeploy-dead", "redeploy-bad-pages")
	}
	for {
		kind := rapid.SampledFrom(kinds).Draw(t, "fail-kind")
		var c vfCmd
		switch kind {
		case "unknown-service":
			op := rapid.SampledFrom([]string{"remove", "pause", "stop", "resume", "rollout-deploy", "rollout-set", "rollout-stop"}).Draw(t, "op")
			c = vfCmd{Op: op, Svc: unknown, Targets: []string{vfFailPool[0]}, Pct: 50, Msg: "m"}
			// a name that is a prefix / extension of an existing one
			if len(names) > 0 && rapid.Bool().Draw(t, "lookalike") {
				c.Svc = names[0] + "x"
			}
		case "bad-target", "dead-target", "bad-cert", "bad-pages", "missing-pages", "tls-wildcard":
			svc := "snew"
			spec := vfFreeSpec(t, m, svc)
			if len(names) > 0 && rapid.Bool().Draw(t, "on-existing") {
				svc = rapid.SampledFrom(names).Draw(t, "svc")
				spec = m.Svcs[svc].Spec
			}
			c = vfCmd{Op: "deploy", Svc: svc, Spec: spec, Targets: []string{vfFailPool[0]}}
			if kind == "bad-cert" {
				// the CLI only accepts TLS options with a host and on a service that includes the root path
				c.Spec = vfSvcSpec{Name: svc, Hosts: []string{"cert.test"}}
				if s := m.Svcs[svc]; s != nil && len(s.Spec.Hosts) > 0 && vfContains(s.Spec.normPrefixes(), "/") {
					c.Spec = s.Spec
				}
				if vfConflict(m.specs(), c.Spec) {
					continue
				}
			}
			switch kind {
			case "bad-target":
				c.Targets = append(c.Targets, rapid.SampledFrom(vfBadTargets).Draw(t, "bad"))
			case "dead-target":
				c.Targets = []string{rapid.SampledFrom(vfFailPool).Draw(t, "live-sibling"), vfDeadPool[0]}
				c.DeployMs = rapid.SampledFrom([]int{300, 1000, 2500}).Draw(t, "deploy-ms")
			case "tls-wildcard":
				c.Spec = vfSvcSpec{Name: svc, Hosts: []string{"*.wild.test"}}
				if vfConflict(m.specs(), c.Spec) {
					continue
				}
				c.Fault = kind
			default:
				c.Fault = kind
			}
		case "redeploy-dead":
			svc := rapid.SampledFrom(names).Draw(t, "svc")
			c = vfCmd{Op: "deploy", Svc: svc, Spec: m.Svcs[svc].Spec, Opt: m.Svcs[svc].Opt, Targets: []string{vfFailPool[1], vfDeadPool[1]},
				DeployMs: rapid.SampledFrom([]int{700, 2500}).Draw(t, "deploy-ms")}
		case "redeploy-bad-pages":
			svc := rapid.SampledFrom(names).Draw(t, "svc")
			c = vfCmd{Op: "deploy", Svc: svc, Spec: m.Svcs[svc].Spec, Opt: m.Svcs[svc].Opt, Targets: []string{vfFailPool[1]}, Fault: "bad-pages"}
		case "rollout-set-no-targets":
			svc := ""
			for _, n := range names {
				if m.Svcs[n].Rollout == nil {
					svc = n
				}
			}
			if svc == "" {
				continue
			}
			c = vfCmd{Op: "rollout-set", Svc: svc, Pct: 30}
		case "rollout-dead":
			svc := rapid.SampledFrom(names).Draw(t, "svc")
			c = vfCmd{Op: "rollout-deploy", Svc: svc, Targets: []string{rapid.SampledFrom(vfFailPool).Draw(t, "live-sibling"), vfDeadPool[0]},
				DeployMs: rapid.SampledFrom([]int{600, 2500}).Draw(t, "deploy-ms")}
		case "rollout-bad":
			svc := rapid.SampledFrom(names).Draw(t, "svc")
			c = vfCmd{Op: "rollout-deploy", Svc: svc, Targets: []string{vfFailPool[0], rapid.SampledFrom(vfBadTargets).Draw(t, "bad")}}
		case "conflict":
			// claim a pair owned by some other service (new service, or a redeploy of another one)
			owner := rapid.SampledFrom(names).Draw(t, "owner")
			os := m.Svcs[owner].Spec
			svc := "snew"
			if len(names) > 1 && rapid.Bool().Draw(t, "by-existing") {
				for _, n := range names {
					if n != owner {
						svc = n
					}
				}
			}
			spec := vfSvcSpec{Name: svc, Hosts: os.Hosts[:min(1, len(os.Hosts))], Prefixes: os.Prefixes[:min(1, len(os.Prefixes))]}
			if rapid.Bool().Draw(t, "plus-free") {
				spec.Hosts = append(append([]string{}, spec.Hosts...), "free.test")
				if len(os.Hosts) == 0 {
					continue // cannot mix default host with a named one meaningfully here
				}
			}
			c = vfCmd{Op: "deploy", Svc: svc, Spec: spec, Targets: []string{vfFailPool[0], vfFailPool[1]}}
			if s := m.Svcs[svc]; s != nil {
				c.Opt = s.Opt
				c.Opt.TLS = 0
			}
		}
		c.Spec.Name = c.Svc
		if (c.Op == "deploy" || c.Op == "rollout-deploy") && len(c.Targets) > 0 && vfTargetNameOK(c.Targets[0]) && rapid.IntRange(0, 4).Draw(t, "dup-target") == 0 {
			c.Targets = append([]string{c.Targets[0]}, c.Targets...) // the same address listed twice
		}
		probe := m.clone()
		got := probe.apply(c)
		if len(got) == 1 && got[0] == "ok" {
			continue // not actually failing in this state; draw again
		}
		c.Fault = firstNonEmpty(c.Fault, "")
		return c
	}
}

func firstNonEmpty(a, b string) string {
	if a != "" {
		return a
	}
	return b
}
