//go:build verif && go1.25

package server

// C13 — requests and responses pass through unaltered (byte level, through the full chain).

import (
	"bytes"
	"fmt"
	"io"
	"net/http"
	"net/http/httputil"
	"net/textproto"
	"os"
	"sort"
	"strconv"
	"strings"
	"testing"
	"testing/synctest"
	"time"

	"pgregory.net/rapid"
)

type c13Header struct {
	Name  string `json:"n"`
	Value string `json:"v"`
}

type c13Plan struct {
	Prefix   string      `json:"prefix"` // service path prefix
	Strip    bool        `json:"strip"`
	Forward  bool        `json:"forward"`
	HTTPS    bool        `json:"https"`
	Method   string      `json:"method"`
	Rest     string      `json:"rest"`  // path after the prefix, as spelled by the client
	Query    string      `json:"query"` // including the leading "?" when present
	Headers  []c13Header `json:"headers"`
	BodyLen  int         `json:"body_len"`
	Chunked  []int       `json:"chunked"` // request chunk sizes; empty = Content-Length framing
	Status   int         `json:"status"`
	RHeaders []c13Header `json:"rheaders"`
	RBodyLen int         `json:"rbody_len"`
	// Prior: the deploy under test is a REdeploy: 1 = an earlier deploy with the opposite target options (forwarding,
	// buffering), 2 = that plus a rollout deploy in between (rollout targets in place when the options change)
	Prior    int         `json:"prior,omitempty"`
	RFraming string      `json:"rframing"` // cl | chunked | chunked-trailer (a trailer field after the last chunk) | close
	BufReq   bool        `json:"buf_req"`
	BufResp  bool        `json:"buf_resp"`
	Early    bool        `json:"early"` // the target sends an interim 103 Early Hints response first
	NoThink    bool `json:"no_think"`     // the target answers at the very instant it has the last request byte
	WriteLagMs int  `json:"write_lag_ms"` // the proxy's writes to the target return this long after the target can read them
	RDelayMs   int  `json:"r_delay_ms"`   // the second half of the response body follows this long after the first
	// TargetTimeoutMs > 0: the service's target timeout (it bounds the wait for the response HEADERS; a body that is still
	// arriving when it elapses is delivered whole)
	TargetTimeoutMs int `json:"target_timeout_ms,omitempty"`
}

var (
	c13Methods = []string{"GET", "POST", "PUT", "DELETE", "PATCH", "OPTIONS", "PURGE", "M-SEARCH", "REPORT"}
	c13Rests   = []string{"", "/", "/x", "/x/", "/a%2Fb", "/a%2fb/c", "/%41bc", "/%25", "/%e4%b8%ad", "//", "//x//y", "/x/app", "/app", "/app/app/x",
		"/a;b=c", "/a:b@c", "/~user/!$&'()*+,=", "/x%20y", "/%2e%2e/x", "/a/./b", "/long/" + strings.Repeat("seg/", 30)}
	c13Queries = []string{"", "?", "?a=1&b=2", "?a=1;b=2", "?p=a;b", "?%zz", "?&&", "?x", "?a=%20+%2B", "?q=a%26b&q=c", "?a[]=1&a[]=2", "?u=http://x/?y=1", "??", "?=", "?a=1#frag-not-here"}
	c13ReqHeaders = []c13Header{
		{"Accept", "text/html, */*;q=0.8"}, {"Accept", "application/json"}, {"X-Custom_Header", "v1"}, {"x-lower-case", "  padded \t"},
		{"X.Dot", "a,b,,c"}, {"Cookie", "a=1; b=2"}, {"Cookie", "c=3"}, {"Authorization", "Bearer abc.def"}, {"User-Agent", "vf-client/1.0"},
		{"X-Empty", ""}, {"X-Quoted", "\"q, r\""}, {"X-Utf8", "caf\xc3\xa9"}, {"Content-Type", "application/x-www-form-urlencoded; charset=utf-8"},
		{"If-None-Match", "W/\"abc\""}, {"Range", "bytes=0-10"}, {"Via", "1.1 other"}, {"X-Forwarded-For", "1.2.3.4"}, {"X-Forwarded-For", "5.6.7.8, 9.9.9.9"},
		{"X-Forwarded-Proto", "gopher"}, {"X-Forwarded-Host", "evil.test"}, {"Forwarded", "for=1.2.3.4;proto=https"}, {"X-Request-Id", "client-id-1"},
		{"X-Request-ID", "client-id-2"}, {"X-Request-Start", "t=1234"}, {"Connection", "keep-alive, X-Hop"}, {"X-Hop", "hop-value"}, {"Keep-Alive", "timeout=5"},
		{"Proxy-Authorization", "Basic eDp5"}, {"Te", "trailers"}, {"X-Real-Ip", "7.7.7.7"}, {"Origin", "https://o.test"},
	}
	c13RespHeaders = []c13Header{
		{"Content-Type", "text/plain; charset=utf-8"}, {"Content-Type", "application/octet-stream"}, {"Set-Cookie", "a=1; Path=/"}, {"Set-Cookie", "b=2; HttpOnly"},
		{"Cache-Control", "no-store"}, {"X-Odd_Name", "v"}, {"x-lower", "  padded "}, {"Location", "http://elsewhere.test/x?y=1"}, {"Etag", "\"v1\""},
		{"X-Empty", ""}, {"Vary", "Accept"}, {"Vary", "Cookie"}, {"Server", "vf-raw"}, {"Date", "Mon, 01 Jan 2001 00:00:00 GMT"}, {"X-Utf8", "caf\xc3\xa9"},
		{"Content-Encoding", "identity"}, {"Www-Authenticate", "Basic realm=\"x\""}, {"Link", "</a>; rel=preload, </b>; rel=preload"}, {"Connection", "X-Resp-Hop"}, {"X-Resp-Hop", "1"},
	}
	c13Statuses = []int{200, 200, 201, 202, 206, 301, 302, 400, 401, 403, 404, 409, 418, 422, 429, 500, 501, 502, 503, 504, 599}
)

func c13Gen(t *rapid.T) c13Plan {
	p := c13Plan{}
	p.Prefix = rapid.SampledFrom([]string{"/", "/app", "/app", "/a/b"}).Draw(t, "prefix")
	p.Strip = rapid.Bool().Draw(t, "strip")
	p.Forward = rapid.Bool().Draw(t, "forward")
	p.HTTPS = rapid.IntRange(0, 3).Draw(t, "https") == 0
	p.Method = rapid.SampledFrom(c13Methods).Draw(t, "method")
	p.Rest = rapid.SampledFrom(c13Rests).Draw(t, "rest")
	if p.Prefix == "/" && !strings.HasPrefix(p.Rest, "/") {
		p.Rest = "/" + p.Rest
	}
	p.Query = rapid.SampledFrom(c13Queries).Draw(t, "query")
	nh := rapid.IntRange(0, 12).Draw(t, "nheaders")
	for i := 0; i < nh; i++ {
		p.Headers = c13AddHeader(p.Headers, rapid.SampledFrom(c13ReqHeaders).Draw(t, "header"))
	}
	if p.Method != "GET" && p.Method != "DELETE" && p.Method != "OPTIONS" || rapid.IntRange(0, 4).Draw(t, "body-anyway") == 0 {
		p.BodyLen = rapid.SampledFrom([]int{0, 1, 100, 4096, 33000, 70000}).Draw(t, "body-len")
		if rapid.Bool().Draw(t, "chunked") {
			left := p.BodyLen
			for left > 0 {
				c := min(left, rapid.SampledFrom([]int{1, 7, 1024, 32768, 50000}).Draw(t, "chunk"))
				p.Chunked = append(p.Chunked, c)
				left -= c
			}
			if p.BodyLen == 0 {
				p.Chunked = []int{0}
			}
		}
	}
	if p.BodyLen > 0 && rapid.IntRange(0, 5).Draw(t, "expect") == 0 {
		// the client announces its body and sends it without waiting (as it may): the announcement is an end-to-end field
		p.Headers = c13AddHeader(p.Headers, c13Header{Name: "Expect", Value: "100-continue"})
	}
	p.Status = rapid.SampledFrom(c13Statuses).Draw(t, "status")
	nr := rapid.IntRange(0, 8).Draw(t, "nrheaders")
	for i := 0; i < nr; i++ {
		p.RHeaders = c13AddHeader(p.RHeaders, rapid.SampledFrom(c13RespHeaders).Draw(t, "rheader"))
	}
	p.RBodyLen = rapid.SampledFrom([]int{0, 1, 100, 4096, 40000, 70000}).Draw(t, "rbody-len")
	p.RFraming = rapid.SampledFrom([]string{"cl", "chunked", "chunked-trailer", "close"}).Draw(t, "rframing")
	p.Prior = rapid.SampledFrom([]int{0, 0, 0, 1, 2}).Draw(t, "prior")
	p.BufReq = rapid.IntRange(0, 4).Draw(t, "buf-req") == 0
	p.BufResp = rapid.IntRange(0, 4).Draw(t, "buf-resp") == 0
	p.Early = rapid.IntRange(0, 4).Draw(t, "early") == 0
	p.NoThink = rapid.IntRange(0, 9).Draw(t, "no-think") == 0
	p.WriteLagMs = rapid.SampledFrom([]int{0, 0, 0, 0, 5}).Draw(t, "write-lag")
	p.RDelayMs = rapid.SampledFrom([]int{0, 0, 0, 10}).Draw(t, "r-delay")
	if rapid.IntRange(0, 4).Draw(t, "target-timeout?") == 0 {
		p.TargetTimeoutMs = 50
		p.RDelayMs = rapid.SampledFrom([]int{10, 49, 100, 400}).Draw(t, "r-delay-vs-timeout")
		if rapid.IntRange(0, 2).Draw(t, "cl-for-delay") > 0 {
			p.RFraming = "cl"
			p.RBodyLen = max(p.RBodyLen, 100)
		}
	}
	return p
}

// c13ListValued: fields that may legally appear more than once (RFC 9110 list-valued fields, plus the
// de-facto repeatable Cookie / Set-Cookie). Every other field is a singleton and is generated at most once.
var c13ListValued = map[string]bool{"Accept": true, "Cookie": true, "X.dot": true, "Via": true, "X-Forwarded-For": true, "Vary": true, "Set-Cookie": true,
	"Link": true, "X-Custom_header": true, "Cache-Control": true}

func c13AddHeader(hs []c13Header, h c13Header) []c13Header {
	name := textproto.CanonicalMIMEHeaderKey(h.Name)
	if !c13ListValued[name] {
		for _, x := range hs {
			if textproto.CanonicalMIMEHeaderKey(x.Name) == name {
				return hs
			}
		}
	}
	return append(hs, h)
}

func c13Body(n int, salt byte) []byte {
	b := make([]byte, n)
	for i := range b {
		b[i] = byte(i*7+int(salt)) ^ byte(i>>8)
	}
	return b
}

var c13Hop = map[string]bool{"Connection": true, "Keep-Alive": true, "Proxy-Authenticate": true, "Proxy-Authorization": true, "Te": true, "Trailer": true,
	"Transfer-Encoding": true, "Upgrade": true, "Proxy-Connection": true}

func c13ConnectionListed(hs []c13Header) map[string]bool {
	out := map[string]bool{}
	for _, h := range hs {
		if textproto.CanonicalMIMEHeaderKey(h.Name) == "Connection" {
			for _, tok := range strings.Split(h.Value, ",") {
				out[textproto.CanonicalMIMEHeaderKey(strings.TrimSpace(tok))] = true
			}
		}
	}
	return out
}

func c13Values(hs []c13Header, name string) []string {
	var out []string
	for _, h := range hs {
		if textproto.CanonicalMIMEHeaderKey(h.Name) == name {
			out = append(out, strings.Trim(h.Value, " \t"))
		}
	}
	return out
}

const c13ClientIP = "198.51.100.23"

func c13Run(t *testing.T, p c13Plan) (res vfResult) {
	vfBubble(t, func(w *vfWorld) {
		rt := w.rawTarget("raw0:80")
		if p.NoThink {
			rt.setThink(0)
		}
		w.proxyWriteLag = vfMs(p.WriteLagMs)
		r := w.newRouter("r")
		opts := ServiceOptions{Hosts: []string{"svc.test"}, PathPrefixes: []string{p.Prefix}, StripPrefix: p.Strip, TLSRedirect: false}
		if p.HTTPS {
			vfFixtures()
			opts.TLSEnabled, opts.TLSCertificatePath, opts.TLSPrivateKeyPath = true, vfFix.cert, vfFix.key
			if p.Prefix != "/" {
				opts.PathPrefixes = []string{"/", p.Prefix}
			}
		}
		opts.Normalize()
		to := vfFastTargetOptions()
		to.ForwardHeaders = p.Forward
		to.BufferRequests, to.BufferResponses = p.BufReq, p.BufResp
		to.MaxMemoryBufferSize = 1024
		if p.TargetTimeoutMs > 0 {
			to.ResponseTimeout = vfMs(p.TargetTimeoutMs)
			if p.RDelayMs > p.TargetTimeoutMs && p.RFraming == "cl" && p.RBodyLen > 1 {
				res.label("body-still-arriving-when-the-target-timeout-elapses")
			}
		}
		if p.Prior > 0 {
			// the service has a past: other targets, the opposite options
			w.target("old0:80")
			old := to
			old.ForwardHeaders, old.BufferRequests, old.BufferResponses = !to.ForwardHeaders, !to.BufferRequests, !to.BufferResponses
			if err := vfDeploy(r, "svc", []string{"old0:80"}, opts, old, 5*time.Second, time.Second); err != nil {
				res.failf("setup-failed", "prior deploy: %v", err)
				return
			}
			if p.Prior == 2 {
				w.target("oldr0:80")
				if err := vfRolloutDeploy(r, "svc", []string{"oldr0:80"}, 5*time.Second, time.Second); err != nil {
					res.failf("setup-failed", "prior rollout deploy: %v", err)
					return
				}
			}
			res.label(fmt.Sprintf("redeploy-with-other-options:%d", p.Prior))
		}
		if err := vfDeploy(r, "svc", []string{"raw0:80"}, opts, to, 5*time.Second, time.Second); err != nil {
			res.failf("setup-failed", "deploy: %v", err)
			return
		}
		synctest.Wait()
		if os.Getenv("VF_DEBUG") != "" {
			for _, tg := range r.services.Get("svc").active.Targets() {
				if rp, ok := tg.proxyHandler.(*httputil.ReverseProxy); ok {
					rp.ModifyResponse = func(resp *http.Response) error {
						resp.Body = &vfSpyBody{ReadCloser: resp.Body, w: w}
						return nil
					}
				}
			}
		}
		f := w.front(r, "front:80")

		// ---- the response the target will send
		rbody := c13Body(p.RBodyLen, 3)
		status := p.Status
		var head bytes.Buffer
		fmt.Fprintf(&head, "HTTP/1.1 %d %s\r\n", status, http.StatusText(status))
		for _, hd := range p.RHeaders {
			fmt.Fprintf(&head, "%s: %s\r\n", hd.Name, hd.Value)
		}
		script := []vfRawStep{}
		switch p.RFraming {
		case "cl":
			fmt.Fprintf(&head, "Content-Length: %d\r\n\r\n", len(rbody))
			if p.RDelayMs > 0 && len(rbody) > 1 {
				half := len(rbody) / 2
				script = append(script, vfRawStep{Kind: "bytes", Data: head.String() + string(rbody[:half])}, vfRawStep{Kind: "delay", DelayMs: p.RDelayMs},
					vfRawStep{Kind: "bytes", Data: string(rbody[half:])})
			} else {
				script = append(script, vfRawStep{Kind: "bytes", Data: head.String() + string(rbody)})
			}
		case "chunked", "chunked-trailer":
			if p.RFraming == "chunked-trailer" {
				head.WriteString("Trailer: X-Vf-Checksum\r\n")
			}
			head.WriteString("Transfer-Encoding: chunked\r\n\r\n")
			var sb strings.Builder
			sb.WriteString(head.String())
			for off := 0; off < len(rbody); off += 5000 {
				end := min(off+5000, len(rbody))
				fmt.Fprintf(&sb, "%x\r\n%s\r\n", end-off, rbody[off:end])
			}
			if p.RFraming == "chunked-trailer" {
				sb.WriteString("0\r\nX-Vf-Checksum: c0ffee\r\n\r\n")
			} else {
				sb.WriteString("0\r\n\r\n")
			}
			script = append(script, vfRawStep{Kind: "bytes", Data: sb.String()})
		default:
			head.WriteString("Connection: close\r\n\r\n")
			script = append(script, vfRawStep{Kind: "bytes", Data: head.String() + string(rbody)}, vfRawStep{Kind: "close"})
		}
		if p.Early {
			script = append([]vfRawStep{{Kind: "bytes", Data: "HTTP/1.1 103 Early Hints\r\nLink: </style.css>; rel=preload\r\n\r\n"}, {Kind: "delay", DelayMs: 5}}, script...)
		}
		rt.setScripts([][]vfRawStep{script}, nil)

		// ---- the request the client sends
		body := c13Body(p.BodyLen, 9)
		path := p.Prefix + p.Rest
		if p.Prefix == "/" {
			path = p.Rest
		}
		target := path + p.Query
		var rq bytes.Buffer
		fmt.Fprintf(&rq, "%s %s HTTP/1.1\r\nHost: svc.test\r\n", p.Method, target)
		for _, hd := range p.Headers {
			fmt.Fprintf(&rq, "%s: %s\r\n", hd.Name, hd.Value)
		}
		if p.HTTPS {
			rq.WriteString("X-Vf-Tls: 1\r\n")
		}
		hasBody := p.BodyLen > 0 || len(p.Chunked) > 0
		if len(p.Chunked) > 0 {
			rq.WriteString("Transfer-Encoding: chunked\r\n\r\n")
			off := 0
			for _, c := range p.Chunked {
				if c == 0 {
					continue
				}
				fmt.Fprintf(&rq, "%x\r\n", c)
				rq.Write(body[off : off+c])
				rq.WriteString("\r\n")
				off += c
			}
			rq.WriteString("0\r\n\r\n")
		} else if hasBody || (p.Method != "GET" && p.Method != "DELETE" && p.Method != "OPTIONS") {
			fmt.Fprintf(&rq, "Content-Length: %d\r\n\r\n", len(body))
			rq.Write(body)
		} else {
			rq.WriteString("\r\n")
		}
		before := w.now()
		resp := f.rawExchange(c13ClientIP, [][]byte{rq.Bytes()}, nil, p.Method, 0)
		synctest.Wait()

		desc := fmt.Sprintf("request %q (strip=%v prefix=%q forward=%v https=%v)", p.Method+" "+target, p.Strip, p.Prefix, p.Forward, p.HTTPS)
		seen := rt.seenCopy()
		if len(seen) != 1 {
			res.failf("not-forwarded-once", "%s: target saw %d requests; client got head-err=%v status=%v", desc, len(seen), resp.HeadErr, c13Status(resp))
			return
		}
		got := seen[0]
		// 1. method, target bytes
		parts := strings.SplitN(got.Line, " ", 3)
		if len(parts) != 3 {
			res.failf("bad-request-line", "%s: target received request line %q", desc, got.Line)
			return
		}
		wantPath := path
		stripped := false
		if p.Strip && p.Prefix != "/" {
			wantPath = strings.TrimPrefix(path, p.Prefix)
			if wantPath == "" {
				wantPath = "/"
			}
			stripped = true
		}
		wantTarget := wantPath + p.Query
		if i := strings.Index(wantTarget, "#"); i >= 0 {
			_ = i // a '#' inside the query is sent as is by our raw client; Go's parser keeps it in RawQuery
		}
		if parts[0] != p.Method {
			res.failf("method-changed", "%s: target received method %q", desc, parts[0])
			return
		}
		if parts[1] != wantTarget {
			sig := "target-changed"
			if stripped && strings.Contains(path, "%") {
				sig = "strip-loses-encoding"
			}
			res.failf(sig, "%s: target received request-target %q, want %q", desc, parts[1], wantTarget)
			return
		}
		// 2. Host
		if got.Req.Host != "svc.test" {
			res.failf("host-changed", "%s: target received Host %q", desc, got.Req.Host)
			return
		}
		// 3. end-to-end headers
		listed := c13ConnectionListed(p.Headers)
		names := map[string]bool{}
		for _, hd := range p.Headers {
			names[textproto.CanonicalMIMEHeaderKey(hd.Name)] = true
		}
		for name := range names {
			if c13Hop[name] || listed[name] {
				res.label("licence:hop-by-hop")
				continue
			}
			switch name {
			case "X-Forwarded-For", "X-Forwarded-Proto", "X-Forwarded-Host", "Forwarded", "X-Vf-Tls", "Content-Length":
				continue
			}
			want := c13Values(p.Headers, name)
			gotv := got.Req.Header[name]
			if name == "User-Agent" || name == "Cookie" || name == "Accept" || true {
				if fmt.Sprintf("%q", gotv) != fmt.Sprintf("%q", want) {
					res.failf("request-header-changed", "%s: header %s reached the target as %q, client sent %q", desc, name, gotv, want)
					return
				}
			}
		}
		// 4. body
		if !bytes.Equal(got.Body, body) {
			res.failf("request-body-changed", "%s: target received %d body bytes, client sent %d (equal=%v)", desc, len(got.Body), len(body), bytes.Equal(got.Body, body))
			return
		}
		// 5. forwarding headers
		xff := strings.Join(got.Req.Header["X-Forwarded-For"], ", ")
		var wantXFF []string
		if p.Forward {
			for _, v := range c13Values(p.Headers, "X-Forwarded-For") {
				for _, x := range strings.Split(v, ",") {
					wantXFF = append(wantXFF, strings.TrimSpace(x))
				}
			}
		}
		wantXFF = append(wantXFF, c13ClientIP)
		var gotXFF []string
		for _, x := range strings.Split(xff, ",") {
			gotXFF = append(gotXFF, strings.TrimSpace(x))
		}
		if fmt.Sprint(gotXFF) != fmt.Sprint(wantXFF) {
			res.failf("xff", "%s: X-Forwarded-For reached the target as %q, want %q", desc, gotXFF, wantXFF)
			return
		}
		wantProto, wantHost := "http", "svc.test"
		if p.HTTPS {
			wantProto = "https"
		}
		if p.Forward {
			if v := c13Values(p.Headers, "X-Forwarded-Proto"); len(v) > 0 && v[0] != "" {
				wantProto = v[0]
			}
			if v := c13Values(p.Headers, "X-Forwarded-Host"); len(v) > 0 && v[0] != "" {
				wantHost = v[0]
			}
		}
		if g := got.Req.Header.Get("X-Forwarded-Proto"); g != wantProto || len(got.Req.Header["X-Forwarded-Proto"]) != 1 {
			res.failf("xfp", "%s: X-Forwarded-Proto reached the target as %q, want %q", desc, got.Req.Header["X-Forwarded-Proto"], wantProto)
			return
		}
		if g := got.Req.Header.Get("X-Forwarded-Host"); g != wantHost || len(got.Req.Header["X-Forwarded-Host"]) != 1 {
			res.failf("xfh", "%s: X-Forwarded-Host reached the target as %q, want %q", desc, got.Req.Header["X-Forwarded-Host"], wantHost)
			return
		}
		if names["Forwarded"] {
			res.label("licence:forwarded-removed")
		}
		// 6. request id / start
		rid := got.Req.Header["X-Request-Id"]
		if cv := c13Values(p.Headers, "X-Request-Id"); len(cv) > 0 && cv[0] != "" {
			if fmt.Sprint(rid) != fmt.Sprint(cv) {
				res.failf("request-id", "%s: X-Request-ID reached the target as %q, client sent %q", desc, rid, cv)
				return
			}
		} else if len(rid) != 1 || len(rid[0]) < 8 {
			res.failf("request-id", "%s: no fresh X-Request-ID reached the target (%q)", desc, rid)
			return
		}
		rs := got.Req.Header["X-Request-Start"]
		if cv := c13Values(p.Headers, "X-Request-Start"); len(cv) > 0 && cv[0] != "" {
			if fmt.Sprint(rs) != fmt.Sprint(cv) {
				res.failf("request-start", "%s: X-Request-Start reached the target as %q, client sent %q", desc, rs, cv)
				return
			}
		} else {
			wantMs := strconv.FormatInt(w.epoch.Add(before).UnixMilli(), 10)
			if len(rs) != 1 || rs[0] != wantMs {
				res.failf("request-start", "%s: X-Request-Start reached the target as %q, want [%s]", desc, rs, wantMs)
				return
			}
		}

		// ---- what the client got
		// The listed finding: net/http closed the inbound request body at the first write of the response while the
		// proxy's transport was still reading it (its last, empty read); the transport then drops the target
		// connection and the rest of the response is lost.
		cut := func(sig string) string {
			if w.reqBodyClosed.Load() {
				return "response-cut-after-request-body-closed"
			}
			return sig
		}
		if resp.HeadErr != nil || resp.Resp == nil {
			res.failf(cut("client-no-response"), "%s: client could not parse a response: %v; raw=%q", desc, resp.HeadErr, c13Trunc(resp.Raw))
			return
		}
		if resp.Resp.StatusCode != status {
			res.failf("status-changed", "%s: target sent %d, client received %d", desc, status, resp.Resp.StatusCode)
			return
		}
		rlisted := c13ConnectionListed(p.RHeaders)
		rnames := map[string]bool{}
		for _, hd := range p.RHeaders {
			rnames[textproto.CanonicalMIMEHeaderKey(hd.Name)] = true
		}
		for name := range rnames {
			if c13Hop[name] || rlisted[name] {
				continue
			}
			want := c13Values(p.RHeaders, name)
			gotv := resp.Resp.Header[name]
			if fmt.Sprintf("%q", gotv) != fmt.Sprintf("%q", want) {
				res.failf("response-header-changed", "%s: response header %s reached the client as %q, target sent %q", desc, name, gotv, want)
				return
			}
		}
		var added []string
		for name := range resp.Resp.Header {
			if !rnames[name] {
				added = append(added, name)
			}
		}
		sort.Strings(added)
		for _, name := range added {
			switch name {
			case "Date", "Content-Length", "Transfer-Encoding", "Connection", "Trailer":
			case "X-Vf-Checksum":
				// the target's trailer field: with response buffering it reaches the client among the headers
				if p.RFraming != "chunked-trailer" {
					res.failf("response-header-added", "%s: client received header %s: %q which the target did not send", desc, name, resp.Resp.Header[name])
					return
				}
			case "Content-Type":
				// net/http's server sniffs a Content-Type when the handler (here: ReverseProxy) set none
				res.label("licence:sniffed-content-type")
			default:
				res.failf("response-header-added", "%s: client received header %s: %q which the target did not send", desc, name, resp.Resp.Header[name])
				return
			}
		}
		wantBody := rbody
		if p.Method == "HEAD" || status == 204 || status == 304 {
			wantBody = nil
		}
		if resp.BodyErr != nil || !bytes.Equal(resp.Body, wantBody) {
			res.failf(cut("response-body-changed"), "%s: client received %d body bytes (err=%v), target sent %d (equal=%v)", desc, len(resp.Body), resp.BodyErr, len(wantBody), bytes.Equal(resp.Body, wantBody))
			return
		}
		if p.RFraming == "chunked-trailer" && wantBody != nil && resp.Resp != nil {
			// the trailer field the target announced and sent after its last chunk is part of its response (with response
			// buffering the proxy hands it over among the headers, which is accepted)
			got := resp.Resp.Trailer.Get("X-Vf-Checksum")
			if got == "" && p.BufResp {
				got = resp.Resp.Header.Get("X-Vf-Checksum")
			}
			if got != "c0ffee" {
				res.failf("response-trailer-lost", "%s: the target sent the trailer field X-Vf-Checksum: c0ffee after its body, the client received %q (trailers %v)", desc, got, resp.Resp.Trailer)
				return
			}
			res.label("response-trailer")
		}
		synctest.Wait() // the client has its response; the handler's deferred clean-up may still be running
		if len(w.spillFiles()) != 0 {
			res.failf("spill-left", "%s: spill files left behind: %v", desc, w.spillFiles())
			return
		}
		enc := strings.Contains(path, "%") && stripped
		fwd := names["X-Forwarded-For"] || names["X-Forwarded-Proto"] || names["X-Forwarded-Host"]
		odd := strings.ContainsAny(p.Query, ";%") || p.Query == "?" || p.Query == "?&&"
		res.NonTrivial = enc || fwd || (odd && stripped)
		if enc {
			res.label("encoded-octet-under-stripping")
		}
		if fwd {
			res.label("client-forwarding-headers")
		}
		if odd {
			res.label("odd-query")
		}
		if len(p.Chunked) > 0 {
			res.label("chunked-request")
		}
		if p.NoThink {
			res.label("target-answers-at-once")
		}
		if p.WriteLagMs > 0 {
			res.label("proxy-write-returns-late")
		}
		res.label("rframing:" + p.RFraming)
		for _, h := range p.Headers {
			if textproto.CanonicalMIMEHeaderKey(h.Name) == "Expect" {
				res.label("request-with-expect-100-continue")
			}
		}
		if p.Early {
			res.label("interim-103-before-final")
		}
	})
	return res
}

type vfSpyBody struct {
	io.ReadCloser
	w *vfWorld
	n int
}

func (b *vfSpyBody) Read(p []byte) (int, error) {
	n, err := b.ReadCloser.Read(p)
	b.n += n
	if err != nil && err != io.EOF {
		fmt.Fprintf(os.Stderr, "VF-DEBUG target body read error after %d bytes at %v: %T %v\n", b.n, b.w.now(), err, err)
	}
	return n, err
}

func c13Status(r *vfRawResp) int {
	if r.Resp != nil {
		return r.Resp.StatusCode
	}
	return 0
}

func c13Trunc(b []byte) string {
	if len(b) > 200 {
		return string(b[:200]) + "…"
	}
	return string(b)
}

func TestVF_C13(t *testing.T) {
	vfCheck(t, vfProp[c13Plan]{id: "C13", gen: c13Gen, run: c13Run})
}
