//go:build verif && go1.25

package server

// C07 — a paused service holds requests and releases them intact.

import (
	"bytes"
	"crypto/sha256"
	"encoding/hex"
	"fmt"
	"sort"
	"strings"
	"testing"
	"testing/synctest"
	"time"

	"pgregory.net/rapid"
)

type c07Step struct {
	AtMs       int    `json:"at_ms"`
	Op         string `json:"op"` // req | pause | resume | stop | redeploy | rollout-* | flip (resume and, without letting anything run in between, pause again)
	MaxPauseMs int    `json:"max_pause_ms,omitempty"`
	Msg        string `json:"msg,omitempty"`
	Kind       string `json:"kind,omitempty"` // req: plain | cookie | post | health-get | health-post | health-lookalike
}

type c07Plan struct {
	Targets int       `json:"targets"`
	Steps   []c07Step `json:"steps"`
	Gate    bool      `json:"gate"` // one extra request parked after the pause gate while the first pause is issued (known-finding shape)
	Overlap bool      `json:"overlap"` // the first pause is repeated while it is still draining a slow request
}

func c07GenReq(t *rapid.T, at int) c07Step {
	return c07Step{AtMs: at, Op: "req", Kind: rapid.SampledFrom([]string{"plain", "plain", "cookie", "cookie", "post", "health-get", "health-post", "health-lookalike"}).Draw(t, "kind")}
}

func c07Gen(t *rapid.T) c07Plan {
	p := c07Plan{Targets: rapid.IntRange(1, 3).Draw(t, "targets")}
	at := 0
	gap := func() int {
		at += rapid.SampledFrom([]int{0, 0, 1, 10, 99, 100, 101, 400}).Draw(t, "gap")
		return at
	}
	if rapid.Bool().Draw(t, "structured") {
		// the shape the statement is about: (rollout in place?) -> pause -> requests are held -> the service changes
		// while they wait -> resume / stop / nothing -> more requests
		if rapid.Bool().Draw(t, "rollout-first") {
			p.Steps = append(p.Steps, c07Step{AtMs: gap(), Op: "rollout-deploy"})
			if rapid.Bool().Draw(t, "split-first") {
				p.Steps = append(p.Steps, c07Step{AtMs: gap(), Op: "rollout-set"})
			}
		}
		rounds := rapid.IntRange(1, 2).Draw(t, "rounds")
		for r := 0; r < rounds; r++ {
			p.Steps = append(p.Steps, c07Step{AtMs: gap(), Op: "pause", MaxPauseMs: rapid.SampledFrom([]int{100, 101, 500, 5000}).Draw(t, "max-pause")})
			for i, n := 0, rapid.IntRange(1, 4).Draw(t, "held"); i < n; i++ {
				p.Steps = append(p.Steps, c07GenReq(t, gap()))
			}
			for i, n := 0, rapid.IntRange(0, 3).Draw(t, "changes"); i < n; i++ {
				op := rapid.SampledFrom([]string{"rollout-deploy", "rollout-set", "rollout-stop", "redeploy", "pause", "req"}).Draw(t, "change")
				st := c07Step{AtMs: gap(), Op: op}
				switch op {
				case "pause":
					st.MaxPauseMs = rapid.SampledFrom([]int{1, 100, 500, 5000}).Draw(t, "max-pause2")
				case "req":
					st = c07GenReq(t, st.AtMs)
				}
				p.Steps = append(p.Steps, st)
			}
			switch rapid.IntRange(0, 4).Draw(t, "release") {
			case 0, 1:
				p.Steps = append(p.Steps, c07Step{AtMs: gap(), Op: "resume"})
			case 4:
				// more held requests, then resume and pause again back to back: the ones held so far go, later ones wait
				for i, n := 0, rapid.IntRange(0, 12).Draw(t, "held-more"); i < n; i++ {
					p.Steps = append(p.Steps, c07Step{AtMs: at, Op: "req", Kind: "plain"})
				}
				p.Steps = append(p.Steps, c07Step{AtMs: gap(), Op: "flip", MaxPauseMs: rapid.SampledFrom([]int{100, 500, 5000}).Draw(t, "max-pause3")})
				for i, n := 0, rapid.IntRange(0, 2).Draw(t, "held-after-flip"); i < n; i++ {
					p.Steps = append(p.Steps, c07GenReq(t, gap()))
				}
				if rapid.Bool().Draw(t, "resume-after-flip") {
					p.Steps = append(p.Steps, c07Step{AtMs: gap(), Op: "resume"})
				}
			case 2:
				p.Steps = append(p.Steps, c07Step{AtMs: gap(), Op: "stop", Msg: rapid.SampledFrom([]string{"", "maintenance-A", "maintenance-B"}).Draw(t, "msg")})
			}
			for i, n := 0, rapid.IntRange(0, 2).Draw(t, "after"); i < n; i++ {
				p.Steps = append(p.Steps, c07GenReq(t, gap()))
			}
		}
		p.Gate = rapid.IntRange(0, 9).Draw(t, "gate") == 0
		p.Overlap = !p.Gate && rapid.IntRange(0, 9).Draw(t, "overlap") == 0
		return p
	}
	n := rapid.IntRange(3, 16).Draw(t, "nsteps")
	for i := 0; i < n; i++ {
		st := c07Step{AtMs: gap()}
		st.Op = rapid.SampledFrom([]string{"req", "req", "req", "req", "req", "pause", "pause", "resume", "stop", "redeploy", "rollout-deploy", "rollout-set", "rollout-stop", "flip"}).Draw(t, "op")
		switch st.Op {
		case "req":
			st = c07GenReq(t, st.AtMs)
		case "pause", "flip":
			st.MaxPauseMs = rapid.SampledFrom([]int{1, 100, 101, 500, 5000}).Draw(t, "max-pause")
		case "stop":
			st.Msg = rapid.SampledFrom([]string{"", "maintenance-A", "maintenance-B"}).Draw(t, "msg")
		}
		p.Steps = append(p.Steps, st)
	}
	p.Gate = rapid.IntRange(0, 9).Draw(t, "gate") == 0
	return p
}

type c07Expect struct {
	kind   string // forward | stopped | timeout | health-ok
	at     time.Duration
	set    int    // target set that must serve a forwarded request
	msg    string // stop message
	tie    bool
	held   bool // arrived while the service was paused
	flip   bool // released by a resume that is followed at once by another pause
}

func c07Run(t *testing.T, p c07Plan) (res vfResult) {
	vfBubble(t, func(w *vfWorld) {
		r := w.newRouter("r")
		h := NewServer(&Config{HttpPort: 80, HttpsPort: 443}, r).buildHandler()
		opts := ServiceOptions{Hosts: []string{"svc.test"}, TLSRedirect: true}
		opts.Normalize()
		to := vfFastTargetOptions()
		to.HealthCheckConfig.Interval = 10 * time.Second
		w.noteInterval(10 * time.Second)
		var sets [][]string
		mkSet := func() []string {
			j := len(sets)
			var s []string
			for i := 0; i < p.Targets; i++ {
				n := fmt.Sprintf("g%dt%d:80", j, i)
				w.target(n)
				s = append(s, n)
			}
			sets = append(sets, s)
			return s
		}
		if err := vfDeploy(r, "svc", mkSet(), opts, to, 5*time.Second, time.Second); err != nil {
			res.failf("setup-failed", "deploy: %v", err)
			return
		}
		synctest.Wait()
		t0 := w.now()

		// ---- model timeline
		type change struct {
			at    time.Duration
			state string
			fail  time.Duration
			msg   string
			set   int
			idx   int
			rset  int  // rollout target set in place (-1 none)
			split bool // a 100% split is in force
		}
		state, failAfter, msg, cur := "running", time.Duration(0), "", 0
		rset, split := -1, false
		nsets := 1 // target sets are numbered in creation order: active and rollout sets share the numbering
		var timeline []change
		for i, st := range p.Steps {
			at := t0 + vfMs(st.AtMs)
			switch st.Op {
			case "pause":
				state, failAfter, msg = "paused", vfMs(st.MaxPauseMs), ""
			case "resume":
				state, msg = "running", ""
			case "flip":
				timeline = append(timeline, change{at: at, state: "running", set: cur, idx: i, rset: rset, split: split})
				state, failAfter, msg = "paused", vfMs(st.MaxPauseMs), ""
			case "stop":
				state, msg = "stopped", st.Msg
			case "redeploy":
				cur = nsets
				nsets++
			case "rollout-deploy":
				rset = nsets
				nsets++
			case "rollout-set":
				if rset < 0 {
					continue // rejected: no rollout targets
				}
				split = true
			case "rollout-stop":
				split = false
			default:
				continue
			}
			timeline = append(timeline, change{at: at, state: state, fail: failAfter, msg: msg, set: cur, idx: i, rset: rset, split: split})
		}
		expect := func(i int) c07Expect {
			st := p.Steps[i]
			at := t0 + vfMs(st.AtMs)
			// state at arrival: last change with idx < i
			s, fa, m, set := "running", time.Duration(0), "", 0
			cookie := st.Kind == "cookie"
			pick := func(c change) int {
				if cookie && c.split && c.rset >= 0 {
					return c.rset
				}
				return c.set
			}
			for _, c := range timeline {
				if c.idx < i {
					s, fa, m, set = c.state, c.fail, c.msg, pick(c)
				}
			}
			isHealth := st.Kind == "health-get"
			if s != "running" && isHealth {
				return c07Expect{kind: "health-ok", at: at}
			}
			switch s {
			case "running":
				return c07Expect{kind: "forward", at: at, set: set}
			case "stopped":
				return c07Expect{kind: "stopped", at: at, msg: m}
			}
			// paused: first of resume / stop / own deadline
			dl := at + fa
			for _, c := range timeline {
				if c.idx <= i {
					continue
				}
				if c.at > dl {
					break
				}
				if c.state == "running" {
					return c07Expect{kind: "forward", at: c.at, set: pick(c), tie: c.at == dl, held: true, flip: p.Steps[c.idx].Op == "flip"}
				}
				if c.state == "stopped" {
					return c07Expect{kind: "stopped", at: c.at, msg: c.msg, tie: c.at == dl, held: true}
				}
			}
			return c07Expect{kind: "timeout", at: dl, held: true}
		}

		// ---- execution
		var sc *vfSched
		var gatePend *vfResp
		gateArmed := p.Gate
		type reqObs struct {
			idx  int
			pend *vfPending
			body []byte
		}
		var reqs []reqObs
		held := 0
		for i, st := range p.Steps {
			synctest.Wait()
			if d := t0 + vfMs(st.AtMs) - w.now(); d > 0 {
				time.Sleep(d)
				synctest.Wait()
			}
			switch st.Op {
			case "req":
				method, path := "GET", "/page"
				var body []byte
				switch st.Kind {
				case "post":
					method, body = "POST", c13Body(3000+i, byte(i))
				case "health-get":
					path = DefaultHealthCheckPath
				case "health-post":
					method, path, body = "POST", DefaultHealthCheckPath, []byte("x")
				case "health-lookalike":
					path = DefaultHealthCheckPath + "/"
				}
				req := vfNewRequest(method, "svc.test", path, &vfCtl{ID: fmt.Sprintf("q%d", i)}, body)
				if st.Kind == "cookie" {
					req.Header.Set("Cookie", RolloutCookieName+"=anything")
				}
				reqs = append(reqs, reqObs{idx: i, pend: w.goDo(h, req), body: body})
			case "pause":
				if p.Overlap {
					// a slow request keeps the first pause draining; the pause is repeated (other timeouts) meanwhile
					slow := w.goDo(h, vfNewRequest("GET", "svc.test", "/slow", &vfCtl{ID: "slow", DurMs: 200}, nil))
					synctest.Wait()
					p1 := w.goCmd(func() error { return vfPause(r, "svc", 100*time.Millisecond, vfMs(st.MaxPauseMs)) })
					time.Sleep(10 * time.Millisecond)
					synctest.Wait()
					p2 := w.goCmd(func() error { return vfPause(r, "svc", 500*time.Millisecond, 5*time.Second) })
					<-p1.done
					<-p2.done
					<-slow.done
					synctest.Wait()
					heldReq := w.goDo(h, vfNewRequest("GET", "svc.test", "/held", &vfCtl{ID: "held"}, nil))
					synctest.Wait()
					if cr := w.runCmd(func() error { return vfResume(r, "svc") }); cr.Err != nil || cr.Panicked != "" {
						res.failf("command-failed", "resume: %v %s", cr.Err, cr.Panicked)
						return
					}
					<-heldReq.done
					after := w.do(h, vfNewRequest("GET", "svc.test", "/after", &vfCtl{ID: "after"}, nil))
					if heldReq.resp.Status != 200 || after.Status != 200 {
						res.failf("refused-after-overlapping-pauses", "a pause repeated while the first was still draining, then resume: the held request got %v, a new one %v (want 200 from the targets)", heldReq.resp, after)
						return
					}
					res.label("overlapping-pauses")
					res.NonTrivial = true
					return
				}
				if gateArmed {
					// known-finding shape: a request has passed the pause gate, a slow request keeps the drain busy
					gateArmed = false
					slow := w.goDo(h, vfNewRequest("GET", "svc.test", "/slow", &vfCtl{ID: "slow", DurMs: 30}, nil))
					synctest.Wait()
					sc = newVFSched(w, []string{"service.after-gate"}, nil)
					sc.spawn("gated", func() {
						gatePend = w.do(h, vfNewRequest("GET", "svc.test", "/gated", &vfCtl{ID: "gated"}, nil))
					})
					synctest.Wait()
					pc := w.goCmd(func() error { return vfPause(r, "svc", time.Second, vfMs(st.MaxPauseMs)) })
					synctest.Wait()
					sc.stop() // the gated request claims while pause is draining
					vfCurSched.Store(nil)
					<-pc.done
					<-slow.done
					synctest.Wait()
					if gatePend == nil || gatePend.Status != 200 {
						res.failf("refused-by-pause", "a request that had passed the pause gate when pause was issued was refused: %v (issuing the pause must never cause a request to be refused)", gatePend)
						return
					}
					res.label("gate-shape")
					res.NonTrivial = true
					return // the shape costs virtual time; the timeline oracle is not applied to this case
				}
				if cr := w.runCmd(func() error { return vfPause(r, "svc", 50*time.Millisecond, vfMs(st.MaxPauseMs)) }); cr.Err != nil || cr.Panicked != "" {
					res.failf("command-failed", "step %d pause: %v %s", i, cr.Err, cr.Panicked)
					return
				}
				w.noteWait(vfMs(st.MaxPauseMs))
			case "resume":
				if cr := w.runCmd(func() error { return vfResume(r, "svc") }); cr.Err != nil || cr.Panicked != "" {
					res.failf("command-failed", "step %d resume: %v %s", i, cr.Err, cr.Panicked)
					return
				}
			case "flip":
				cr := w.runCmd(func() error {
					if err := vfResume(r, "svc"); err != nil {
						return err
					}
					return vfPause(r, "svc", 50*time.Millisecond, vfMs(st.MaxPauseMs))
				})
				if cr.Err != nil || cr.Panicked != "" {
					res.failf("command-failed", "step %d resume+pause: %v %s", i, cr.Err, cr.Panicked)
					return
				}
				w.noteWait(vfMs(st.MaxPauseMs))
				res.label("resume-then-pause-back-to-back")
			case "stop":
				if cr := w.runCmd(func() error { return vfStop(r, "svc", 50*time.Millisecond, st.Msg) }); cr.Err != nil || cr.Panicked != "" {
					res.failf("command-failed", "step %d stop: %v %s", i, cr.Err, cr.Panicked)
					return
				}
			case "rollout-deploy":
				set := mkSet()
				if cr := w.runCmd(func() error { return vfRolloutDeploy(r, "svc", set, 5*time.Second, 50*time.Millisecond) }); cr.Err != nil || cr.Panicked != "" {
					res.failf("command-failed", "step %d rollout deploy: %v %s", i, cr.Err, cr.Panicked)
					return
				}
				res.label("rollout-op")
			case "rollout-set":
				cr := w.runCmd(func() error { return vfRolloutSet(r, "svc", 100, nil) })
				if cr.Panicked != "" {
					res.failf("command-failed", "step %d rollout set: %s", i, cr.Panicked)
					return
				}
			case "rollout-stop":
				if cr := w.runCmd(func() error { return vfRolloutStop(r, "svc") }); cr.Err != nil || cr.Panicked != "" {
					res.failf("command-failed", "step %d rollout stop: %v %s", i, cr.Err, cr.Panicked)
					return
				}
			case "redeploy":
				set := mkSet()
				if cr := w.runCmd(func() error { return vfDeploy(r, "svc", set, opts, to, 5*time.Second, 50*time.Millisecond) }); cr.Err != nil || cr.Panicked != "" {
					res.failf("command-failed", "step %d redeploy: %v %s", i, cr.Err, cr.Panicked)
					return
				}
			}
			if w.now() != t0+vfMs(st.AtMs) {
				res.failf("harness", "step %d took virtual time (%v -> %v)", i, t0+vfMs(st.AtMs), w.now())
				return
			}
		}
		time.Sleep(6 * time.Second)
		synctest.Wait()

		// ---- oracle
		endings := map[string]bool{}
		survivedRedeploy := false
		for _, ro := range reqs {
			st := p.Steps[ro.idx]
			e := expect(ro.idx)
			desc := fmt.Sprintf("request of step %d (%s, arrived %v): expected %s at %v", ro.idx, st.Kind, t0+vfMs(st.AtMs), e.kind, e.at)
			if !ro.pend.finished() {
				res.failf("held-forever", "%s, but it never ended", desc)
				return
			}
			rp := ro.pend.resp
			if e.tie {
				res.label("tie")
				continue
			}
			arrivedPaused := e.held
			if arrivedPaused {
				held++
				endings[e.kind] = true
			}
			if rp.End != e.at {
				sig := "released-at-wrong-instant"
				if rp.End < e.at {
					sig = "released-early"
				}
				res.failf(sig, "%s; ended at %v with %v", desc, rp.End, rp)
				return
			}
			switch e.kind {
			case "forward":
				if rp.Status != 200 || rp.Target == "" {
					sig := "not-forwarded"
					if e.flip && rp.Status == 503 && rp.Target == "" {
						// the listed finding: the released request had passed the pause gate when the next pause was issued and
						// claimed a target while that pause was draining
						sig = "refused-by-pause"
					}
					res.failf(sig, "%s; got %v", desc, rp)
					return
				}
				if !vfContains(sets[e.set], rp.Target) {
					sig := "forwarded-to-wrong-set"
					// the listed finding: a request held across a REDEPLOY (the service object was replaced) is released to
					// targets of the service it was routed to
					redeployedWhileHeld := false
					for _, c := range timeline {
						if c.idx > ro.idx && c.at <= e.at && p.Steps[c.idx].Op == "redeploy" {
							redeployedWhileHeld = true
						}
					}
					if arrivedPaused && redeployedWhileHeld {
						sig = "held-across-redeploy-reaches-replaced-targets"
					}
					res.failf(sig, "%s from the targets the service has at that moment %v; got %v", desc, sets[e.set], rp)
					return
				}
				if ro.body != nil {
					sum := sha256.Sum256(ro.body)
					if !bytes.Contains(rp.Body, []byte(hex.EncodeToString(sum[:8]))) {
						res.failf("body-not-intact", "%s; the body that reached the target differs from the one sent (%d bytes)", desc, len(ro.body))
						return
					}
				}
				if arrivedPaused {
					for _, c := range timeline {
						if c.idx > ro.idx && c.at <= e.at && p.Steps[c.idx].Op == "redeploy" {
							survivedRedeploy = true
						}
					}
				}
			case "stopped":
				if rp.Status != 503 || rp.Target != "" {
					res.failf("not-503", "%s; got %v", desc, rp)
					return
				}
				if e.msg != "" && !strings.Contains(string(rp.Body), e.msg) {
					res.failf("stop-message-missing", "%s with message %q; body lacks it", desc, e.msg)
					return
				}
			case "timeout":
				if rp.Status != 504 || rp.Target != "" {
					res.failf("not-504", "%s; got %v", desc, rp)
					return
				}
			case "health-ok":
				if rp.Status != 200 || rp.Target != "" {
					res.failf("health-not-200", "%s from the proxy itself; got %v", desc, rp)
					return
				}
			}
		}
		// nothing reached a target while it should have been held: every receipt lies at a forward instant
		okInstants := map[time.Duration]bool{}
		for _, ro := range reqs {
			if e := expect(ro.idx); e.kind == "forward" {
				okInstants[e.at] = true
			}
		}
		for _, s := range sets {
			for _, n := range s {
				for _, rq := range w.targets[n].reqLog() {
					if strings.HasPrefix(rq.ID, "q") && !okInstants[rq.Arrived] {
						res.failf("forwarded-while-held", "target %s received %s at %v, not an instant at which any request may be forwarded", n, rq.ID, rq.Arrived)
						return
					}
				}
			}
		}
		var ks []string
		for k := range endings {
			ks = append(ks, k)
		}
		sort.Strings(ks)
		res.NonTrivial = held >= 2 && len(endings) >= 2 || survivedRedeploy
		if held > 0 {
			res.label("held-requests")
		}
		if len(endings) >= 2 {
			res.label("held-end-differently")
		}
		if survivedRedeploy {
			res.label("held-across-redeploy")
		}
	})
	return res
}

func TestVF_C07(t *testing.T) {
	vfCheck(t, vfProp[c07Plan]{id: "C07", gen: c07Gen, run: c07Run})
}
