//go:build verif && go1.25

package server

// C09 (b) — many targets changing health at the same instant, again and again. Every probe round, a drawn subset
// of 4-8 targets answers 500 and the rest 200, so several probe results flip targets at one virtual instant; the
// harness hands those answers to the proxy at the same real moment (rendezvous in the probe transport), which
// makes the health changes and the rotation updates that follow them contend. After each round: exactly the
// targets whose latest probe succeeded receive requests (503 when there is none), and every one of them does.

import (
	"fmt"
	"sort"
	"testing"
	"testing/synctest"
	"time"

	"pgregory.net/rapid"
)

type c09bPlan struct {
	N     int   `json:"n"`
	Masks []int `json:"masks"` // per probe round: bit i set = target i answers 500
}

func c09bGen(t *rapid.T) c09bPlan {
	p := c09bPlan{N: rapid.IntRange(4, 8).Draw(t, "n")}
	for i, k := 0, rapid.IntRange(8, 30).Draw(t, "rounds"); i < k; i++ {
		switch rapid.IntRange(0, 5).Draw(t, "shape") {
		case 0:
			p.Masks = append(p.Masks, 1<<p.N-1) // everything fails at once
		case 1:
			p.Masks = append(p.Masks, 0) // everything recovers at once
		default:
			p.Masks = append(p.Masks, rapid.IntRange(0, 1<<p.N-1).Draw(t, "mask"))
		}
	}
	return p
}

func c09bRun(t *testing.T, p c09bPlan) (res vfResult) {
	vfBubble(t, func(w *vfWorld) {
		ivl := 100 * time.Millisecond
		w.noteInterval(ivl)
		r := w.newRouter("r")
		opts := ServiceOptions{TLSRedirect: true}
		opts.Normalize()
		to := vfFastTargetOptions()
		to.HealthCheckConfig.Interval = ivl
		to.HealthCheckConfig.Timeout = 50 * time.Millisecond
		var names []string
		for i := 0; i < p.N; i++ {
			n := fmt.Sprintf("tg%d:80", i)
			names = append(names, n)
			tg := w.target(n)
			steps := []vfProbeStep{{Kind: "ok"}}
			for _, m := range p.Masks {
				if m&(1<<i) != 0 {
					steps = append(steps, vfProbeStep{Kind: "status", Status: 500})
				} else {
					steps = append(steps, vfProbeStep{Kind: "ok"})
				}
			}
			tg.setProbeScript(steps, vfProbeStep{Kind: "ok"})
		}
		if err := vfDeploy(r, "svc", names, opts, to, 5*time.Second, time.Second); err != nil {
			res.failf("setup-failed", "deploy: %v", err)
			return
		}
		synctest.Wait()
		base := w.now()
		w.probeBarrier.Store(true)
		flips := 0
		prev := 0
		for k, m := range p.Masks {
			if d := base + time.Duration(k+1)*ivl + 7*time.Millisecond - w.now(); d > 0 {
				time.Sleep(d)
			}
			synctest.Wait()
			changed := 0
			for i := 0; i < p.N; i++ {
				if (m^prev)&(1<<i) != 0 {
					changed++
				}
			}
			prev = m
			if changed >= 2 {
				flips++
			}
			var H []string
			for i, n := range names {
				if m&(1<<i) == 0 {
					H = append(H, n)
				}
			}
			got := map[string]bool{}
			for q := 0; q < 2*p.N; q++ {
				rp := w.do(r, vfNewRequest("GET", "any.host", "/x", &vfCtl{ID: fmt.Sprintf("r%dq%d", k, q)}, nil))
				if len(H) == 0 {
					if rp.Status != 503 || rp.Target != "" {
						res.failf("no-healthy-not-503", "round %d (mask %b, %d targets changed at once): no target is healthy, request got %v", k, m, changed, rp)
						return
					}
					continue
				}
				if rp.Status != 200 || !vfContains(H, rp.Target) {
					res.failf("sent-to-unhealthy", "round %d (mask %b, %d targets changed at once): healthy set %v, request got %v", k, m, changed, H, rp)
					return
				}
				got[rp.Target] = true
			}
			if len(H) > 0 && len(got) != len(H) {
				var g []string
				for n := range got {
					g = append(g, n)
				}
				sort.Strings(g)
				res.failf("healthy-target-left-out", "round %d (mask %b, %d targets changed at once): healthy set %v, yet %d requests reached only %v", k, m, changed, H, 2*p.N, g)
				return
			}
		}
		res.NonTrivial = flips >= 2
		res.label(fmt.Sprintf("targets:%d", p.N))
	})
	return res
}

func TestVF_C09_Simultaneous(t *testing.T) {
	vfCheck(t, vfProp[c09bPlan]{id: "C09", gen: c09bGen, run: c09bRun})
}
