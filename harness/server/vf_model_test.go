//go:build verif && go1.25

package server

// Reference model: written from the property statements and the README, not from the code.

import (
	"sort"
	"strings"
)

type vfSvcSpec struct {
	Name     string   `json:"name"`
	Hosts    []string `json:"hosts"`    // empty = default (no host)
	Prefixes []string `json:"prefixes"` // as given on the command line; empty = root
}

// vfNormPrefix is the documented normal form of a path prefix: one leading slash, no trailing slash.
func vfNormPrefix(p string) string { return "/" + strings.Trim(p, "/") }

func (s vfSvcSpec) normHosts() []string {
	if len(s.Hosts) == 0 {
		return []string{""}
	}
	return s.Hosts
}

func (s vfSvcSpec) normPrefixes() []string {
	if len(s.Prefixes) == 0 {
		return []string{"/"}
	}
	out := []string{}
	for _, p := range s.Prefixes {
		out = append(out, vfNormPrefix(p))
	}
	return out
}

// vfHostOnly removes an optional port from a Host header value (RFC 3986 authority syntax).
func vfHostOnly(h string) string {
	if strings.HasPrefix(h, "[") {
		if i := strings.Index(h, "]"); i >= 0 {
			rest := h[i+1:]
			if rest == "" {
				return h // "[::1]" without a port stays as spelled
			}
			if strings.HasPrefix(rest, ":") {
				return h[1:i]
			}
		}
		return h
	}
	if i := strings.LastIndex(h, ":"); i > 0 && strings.Count(h, ":") == 1 {
		return h[:i]
	}
	return h
}

// vfPrefixMatches: prefix (normal form) matches path on a segment boundary.
func vfPrefixMatches(prefix, path string) bool {
	if prefix == "/" {
		// the root prefix matches every request, including the empty path of an absolute-form
		// request line without one ("GET http://host HTTP/1.1"), which is equivalent to "/" (RFC 3986 6.2.3)
		return path == "" || strings.HasPrefix(path, "/")
	}
	return path == prefix || strings.HasPrefix(path, prefix+"/")
}

// vfRefRoute names the service that must handle (hostHeader, path) given the deployed set, or "".
func vfRefRoute(specs []vfSvcSpec, hostHeader, path string) (name, prefix string) {
	host := vfHostOnly(hostHeader)
	level := func(h string) []vfSvcSpec {
		var out []vfSvcSpec
		for _, s := range specs {
			for _, sh := range s.normHosts() {
				if sh == h {
					out = append(out, s)
					break
				}
			}
		}
		return out
	}
	cands := level(host)
	if len(cands) == 0 {
		if i := strings.Index(host, "."); i > 0 {
			cands = level("*" + host[i:])
		}
	}
	if len(cands) == 0 {
		cands = level("")
	}
	best, bestPrefix := "", ""
	for _, s := range cands {
		for _, p := range s.normPrefixes() {
			if vfPrefixMatches(p, path) && (best == "" || len(p) > len(bestPrefix)) {
				best, bestPrefix = s.Name, p
			}
		}
	}
	return best, bestPrefix
}

// vfOwnership: (host, normal prefix) -> service name.
type vfOwnership map[[2]string]string

func vfOwners(specs []vfSvcSpec) vfOwnership {
	o := vfOwnership{}
	for _, s := range specs {
		for _, h := range s.normHosts() {
			for _, p := range s.normPrefixes() {
				o[[2]string{h, p}] = s.Name
			}
		}
	}
	return o
}

// vfConflict reports whether deploying spec into specs claims a pair owned by another service.
func vfConflict(specs []vfSvcSpec, spec vfSvcSpec) bool {
	o := vfOwners(specs)
	for _, h := range spec.normHosts() {
		for _, p := range spec.normPrefixes() {
			if n, ok := o[[2]string{h, p}]; ok && n != spec.Name {
				return true
			}
		}
	}
	return false
}

func vfSortedCopy(a []string) []string {
	b := append([]string(nil), a...)
	sort.Strings(b)
	return b
}
