//go:build verif && go1.25

package server

// C10 — rollout split: sticky, monotone, 100% includes everything, allowlist, opt-in only, share.

import (
	"fmt"
	"math"
	"net/http"
	"os"
	"strings"
	"sync"
	"sync/atomic"
	"testing"
	"testing/synctest"
	"time"

	"pgregory.net/rapid"
)

const c10CookieOctets = "!#$%&'()*+-./0123456789:<=>?@ABCDEFGHIJKLMNOPQRSTUVWXYZ[]^_`abcdefghijklmnopqrstuvwxyz{|}~"

func c10GenValue(t *rapid.T, label string) string {
	n := rapid.IntRange(1, 24).Draw(t, label+"-len")
	if rapid.IntRange(0, 9).Draw(t, label+"-long") == 0 {
		n = rapid.IntRange(25, 64).Draw(t, label+"-len2")
	}
	var sb strings.Builder
	for i := 0; i < n; i++ {
		sb.WriteByte(c10CookieOctets[rapid.IntRange(0, len(c10CookieOctets)-1).Draw(t, label+"-ch")])
	}
	return sb.String()
}

type c10Pair struct {
	Name  string `json:"name"`
	Value string `json:"value"`
}

type c10Plan struct {
	Values  []string    `json:"values"`
	Allow   []string    `json:"allow"`
	Headers [][]c10Pair `json:"headers"` // cookie headers built from several pairs
	Raw     []string    `json:"raw"`     // raw (possibly malformed) Cookie header values
}

var c10Names = []string{"kamal-rollout", "kamal-rollout", "kamal-rollout2", "Kamal-Rollout", "xkamal-rollout", "session", "KAMAL-ROLLOUT"}

func c10Gen(t *rapid.T) c10Plan {
	p := c10Plan{}
	n := rapid.IntRange(1, 5).Draw(t, "nvalues")
	for i := 0; i < n; i++ {
		v := c10GenValue(t, "value")
		p.Values = append(p.Values, v)
		switch rapid.IntRange(0, 4).Draw(t, "variant") {
		case 0: // near duplicate: one more character
			p.Values = append(p.Values, v+"0")
		case 1: // one bit flipped in the last byte, kept inside the cookie alphabet
			b := []byte(v)
			b[len(b)-1] ^= 1
			if strings.IndexByte(c10CookieOctets, b[len(b)-1]) >= 0 {
				p.Values = append(p.Values, string(b))
			}
		}
	}
	na := rapid.IntRange(0, 3).Draw(t, "nallow")
	for i := 0; i < na; i++ {
		if rapid.Bool().Draw(t, "allow-from-values") {
			p.Allow = append(p.Allow, rapid.SampledFrom(p.Values).Draw(t, "allow-pick"))
		} else {
			p.Allow = append(p.Allow, c10GenValue(t, "allow"))
		}
	}
	nh := rapid.IntRange(0, 4).Draw(t, "nheaders")
	for i := 0; i < nh; i++ {
		var h []c10Pair
		k := rapid.IntRange(1, 4).Draw(t, "npairs")
		for j := 0; j < k; j++ {
			h = append(h, c10Pair{Name: rapid.SampledFrom(c10Names).Draw(t, "cname"), Value: rapid.SampledFrom(p.Values).Draw(t, "cvalue")})
		}
		p.Headers = append(p.Headers, h)
	}
	nr := rapid.IntRange(0, 3).Draw(t, "nraw")
	for i := 0; i < nr; i++ {
		v := rapid.SampledFrom(p.Values).Draw(t, "raw-value")
		p.Raw = append(p.Raw, rapid.SampledFrom([]string{
			"kamal-rollout", "kamal-rollout=", "=" + v, "kamal-rollout=\"" + v + "\"", "kamal-rollout =" + v, "kamal-rollout= " + v,
			";;kamal-rollout=" + v, "kamal-rollout=" + v + ";", "a=b;kamal-rollout=" + v, "kamal-rollout=a b", "kamal-rollout=a,b",
"kamal-rollout=" + v + "; kamal-rollout=zzz", "\"kamal-rollout\"=" + v, "kamal-rollout==" + v,
		}).Draw(t, "raw"))
	}
	return p
}

type c10Env struct {
	w      *vfWorld
	r      *Router
	active []string
	roll   []string
}

func c10Setup(w *vfWorld, name string) (*c10Env, error) {
	e := &c10Env{w: w, r: w.newRouter(name), active: []string{"ta0:80", "ta1:80"}, roll: []string{"tr0:80"}}
	for _, n := range append(append([]string{}, e.active...), e.roll...) {
		w.target(n)
	}
	opts := ServiceOptions{TLSRedirect: true}
	opts.Normalize()
	if err := vfDeploy(e.r, "svc", e.active, opts, vfFastTargetOptions(), 5*time.Second, time.Second); err != nil {
		return nil, err
	}
	return e, nil
}

// side sends one request with the given Cookie header ("" = none) and reports "active" / "rollout".
func (e *c10Env) side(cookieHeader string) (string, *vfResp) {
	req := vfNewRequest("GET", "h.test", "/", nil, nil)
	if cookieHeader != "" {
		req.Header.Set("Cookie", cookieHeader)
	}
	rp := e.w.do(e.r, req)
	switch {
	case rp.Status == 200 && vfContains(e.active, rp.Target):
		return "active", rp
	case rp.Status == 200 && vfContains(e.roll, rp.Target):
		return "rollout", rp
	}
	return "other", rp
}

func c10Run(t *testing.T, p c10Plan) (res vfResult) {
	vfBubble(t, func(w *vfWorld) {
		e, err := c10Setup(w, "r")
		if err != nil {
			res.failf("setup-failed", "%v", err)
			return
		}
		// a split before rollout targets exist is rejected
		if err := vfRolloutSet(e.r, "svc", 50, nil); vfErrClass(err) != "no-rollout" {
			res.failf("set-before-targets", "rollout set before any rollout deploy returned %v, want %v", err, ErrorRolloutTargetNotSet)
			return
		}
		if err := vfRolloutDeploy(e.r, "svc", e.roll, 5*time.Second, time.Second); err != nil {
			res.failf("setup-failed", "rollout deploy: %v", err)
			return
		}
		synctest.Wait()
		// targets deployed but no split: everything goes to active
		for _, v := range p.Values {
			if s, rp := e.side("kamal-rollout=" + v); s != "active" {
				res.failf("no-split-not-active", "no split set, cookie %q went to %s (%v)", v, s, rp)
				return
			}
		}
		included := map[string][101]bool{} // value -> percentage -> included (no allowlist)
		crossed := false
		for pct := 0; pct <= 100; pct++ {
			if err := vfRolloutSet(e.r, "svc", pct, nil); err != nil {
				res.failf("set-failed", "rollout set %d: %v", pct, err)
				return
			}
			for _, v := range p.Values {
				s, rp := e.side("kamal-rollout=" + v)
				if s == "other" {
					res.failf("bad-response", "pct=%d cookie %q: %v", pct, v, rp)
					return
				}
				s2, _ := e.side("kamal-rollout=" + v)
				if s2 != s {
					res.failf("not-sticky", "pct=%d cookie %q: first %s then %s", pct, v, s, s2)
					return
				}
				row := included[v]
				row[pct] = s == "rollout"
				included[v] = row
				if pct > 0 && row[pct-1] && !row[pct] {
					res.failf("not-monotone", "cookie %q included at %d%% but not at %d%%", v, pct-1, pct)
					return
				}
				if pct > 0 && row[pct] != row[pct-1] {
					crossed = true
				}
				if pct == 100 && !row[100] {
					res.failf("hundred-excludes", "cookie %q not included at 100%%", v)
					return
				}
			}
			// requests without the cookie stay on active at every percentage
			if s, rp := e.side(""); s != "active" {
				res.failf("no-cookie-not-active", "pct=%d request without cookie went to %s (%v)", pct, s, rp)
				return
			}
			if s, rp := e.side("kamal-rollout2=x; Kamal-Rollout=x; session=kamal-rollout"); s != "active" {
				res.failf("lookalike-cookie", "pct=%d request with look-alike cookie names only went to %s (%v)", pct, s, rp)
				return
			}
		}
		// allowlist: allowlisted values are in at every percentage; others behave as without the list
		for _, pct := range []int{0, 1, 37, 99, 100} {
			if err := vfRolloutSet(e.r, "svc", pct, p.Allow); err != nil {
				res.failf("set-failed", "rollout set %d %v: %v", pct, p.Allow, err)
				return
			}
			for _, v := range append(append([]string{}, p.Values...), p.Allow...) {
				s, rp := e.side("kamal-rollout=" + v)
				want := vfContains(p.Allow, v)
				if row, ok := included[v]; ok && row[pct] {
					want = true
				} else if !ok && !want {
					continue
				}
				if (s == "rollout") != want {
					res.failf("allowlist", "pct=%d allow=%q cookie %q went to %s, want rollout=%v (%v)", pct, p.Allow, v, s, want, rp)
					return
				}
			}
		}
		// composite headers, at a percentage where the values disagree if there is one
		probe := []int{50}
		for pct := 1; pct <= 100; pct++ {
			in, out := 0, 0
			for _, v := range p.Values {
				if included[v][pct] {
					in++
				} else {
					out++
				}
			}
			if in > 0 && out > 0 {
				probe = append(probe, pct)
				break
			}
		}
		for _, pct := range probe {
			vfRolloutSet(e.r, "svc", pct, nil)
			for _, h := range p.Headers {
				var parts []string
				var exact []bool
				for _, pr := range h {
					parts = append(parts, pr.Name+"="+pr.Value)
					if pr.Name == RolloutCookieName {
						exact = append(exact, included[pr.Value][pct])
					}
				}
				s, rp := e.side(strings.Join(parts, "; "))
				if s == "other" {
					res.failf("bad-response", "header %q: %v", parts, rp)
					return
				}
				allIn, allOut := true, true
				for _, x := range exact {
					if x {
						allOut = false
					} else {
						allIn = false
					}
				}
				switch {
				case len(exact) == 0 && s != "active":
					res.failf("opt-in-only", "pct=%d header %q carries no %s cookie but went to %s", pct, parts, RolloutCookieName, s)
					return
				case len(exact) > 0 && allIn && s != "rollout":
					res.failf("composite-header", "pct=%d header %q: every %s value is included, yet went to %s", pct, parts, RolloutCookieName, s)
					return
				case len(exact) > 0 && allOut && s != "active":
					res.failf("composite-header", "pct=%d header %q: no %s value is included, yet went to %s", pct, parts, RolloutCookieName, s)
					return
				case len(exact) > 1 && !allIn && !allOut:
					res.label("duplicate-cookie-mixed-membership")
				}
			}
			for _, raw := range p.Raw {
				s, rp := e.side(raw)
				if s == "other" || rp.Panicked != "" {
					res.failf("malformed-header", "raw Cookie header %q: %v", raw, rp)
					return
				}
			}
		}
		// the rollout cookie is carried next to junk the cookie parser skips, or on a second Cookie line: the decision
		// is still the one its value gets alone
		for _, pct := range probe {
			vfRolloutSet(e.r, "svc", pct, nil)
			for _, v := range p.Values {
				want, _ := e.side("kamal-rollout=" + v)
				for _, hdr := range []string{
					"kamal-rollout=" + v + "; garbage", "garbage; kamal-rollout=" + v, "bad name=1; kamal-rollout=" + v, "kamal-rollout=" + v + "; x=\"unterminated",
					"=novalue; kamal-rollout=" + v, "a=b; ; ;kamal-rollout=" + v + ";", "x=a b c; kamal-rollout=" + v,
				} {
					if got, rp := e.side(hdr); got != want {
						res.failf("junk-next-to-cookie", "pct=%d Cookie header %q went to %s, the cookie value alone goes to %s (%v)", pct, hdr, got, want, rp)
						return
					}
				}
				req := vfNewRequest("GET", "h.test", "/", nil, nil)
				req.Header.Add("Cookie", "session=abc")
				req.Header.Add("Cookie", "kamal-rollout="+v)
				rp := e.w.do(e.r, req)
				got := "other"
				if rp.Status == 200 && vfContains(e.active, rp.Target) {
					got = "active"
				} else if rp.Status == 200 && vfContains(e.roll, rp.Target) {
					got = "rollout"
				}
				if got != want {
					res.failf("second-cookie-line", "pct=%d rollout cookie %q on a second Cookie header line went to %s, alone it goes to %s", pct, v, got, want)
					return
				}
			}
		}
		// the decision is a pure function of the value also when many requests are decided at once
		{
			pct := probe[len(probe)-1]
			vfRolloutSet(e.r, "svc", pct, nil)
			var wg sync.WaitGroup
			var bad atomic.Value
			for gi := 0; gi < 8; gi++ {
				v := p.Values[gi%len(p.Values)]
				want := "active"
				if included[v][pct] {
					want = "rollout"
				}
				wg.Add(1)
				go func() {
					defer wg.Done()
					for k := 0; k < 40; k++ {
						if got, _ := e.side("kamal-rollout=" + v); got != want {
							bad.Store(fmt.Sprintf("pct=%d cookie %q went to %s while other requests were being decided, alone it goes to %s", pct, v, got, want))
							return
						}
					}
				}()
			}
			wg.Wait()
			if msg, _ := bad.Load().(string); msg != "" {
				res.failf("not-sticky-under-concurrency", "%s", msg)
				return
			}
		}
		// rollout stop: back to active for everything
		if err := vfRolloutStop(e.r, "svc"); err != nil {
			res.failf("stop-failed", "rollout stop: %v", err)
			return
		}
		for _, v := range p.Values {
			if s, rp := e.side("kamal-rollout=" + v); s != "active" {
				res.failf("after-stop-not-active", "after rollout stop cookie %q went to %s (%v)", v, s, rp)
				return
			}
		}
		res.NonTrivial = crossed
		if crossed {
			res.label("value-changes-side-across-percentages")
		}
		if len(p.Allow) > 0 {
			res.label("allowlist")
		}
		if len(p.Headers) > 0 {
			res.label("composite-headers")
		}
	})
	return res
}

func TestVF_C10(t *testing.T) {
	vfCheck(t, vfProp[c10Plan]{id: "C10", gen: c10Gen, run: c10Run})
}

// ---------------------------------------------------------------- share

type c10SharePlan struct {
	Seed uint64 `json:"seed"`
	Pct  int    `json:"pct"`
	N    int    `json:"n"`
}

func TestVF_C10_Share(t *testing.T) {
	vfCheck(t, vfProp[c10SharePlan]{id: "C10",
		gen: func(t *rapid.T) c10SharePlan {
			return c10SharePlan{Seed: rapid.Uint64().Draw(t, "seed"), Pct: rapid.IntRange(0, 100).Draw(t, "pct"), N: 4000}
		},
		run: func(t *testing.T, p c10SharePlan) (res vfResult) {
			rc := NewRolloutController(p.Pct, nil)
			in := 0
			x := p.Seed | 1
			for i := 0; i < p.N; i++ {
				// distinct values derived from the drawn seed (xorshift), rendered as cookie-safe text
				x ^= x << 13
				x ^= x >> 7
				x ^= x << 17
				req, _ := http.NewRequest("GET", "/", nil)
				req.AddCookie(&http.Cookie{Name: RolloutCookieName, Value: fmt.Sprintf("%x-%d", x, i)})
				if rc.RequestUsesRolloutGroup(req) {
					in++
				}
			}
			want := float64(p.Pct) / 100
			sigma := math.Sqrt(want * (1 - want) / float64(p.N))
			got := float64(in) / float64(p.N)
			tol := 6*sigma + 1.0/float64(p.N)
			if math.Abs(got-want) > tol {
				res.failf("share", "pct=%d: %d of %d random values included (%.4f), want %.4f +- %.4f (6 sigma)", p.Pct, in, p.N, got, want, tol)
			}
			res.NonTrivial = p.Pct > 0 && p.Pct < 100
			res.label(fmt.Sprintf("pct-decile:%d", p.Pct/10))
			return res
		}})
}

// ---------------------------------------------------------------- histories

type c10Step struct {
	Op    string   `json:"op"` // rollout-deploy | set | stop | redeploy | restart
	Pct   int      `json:"pct,omitempty"`
	Allow []string `json:"allow,omitempty"`
	// Held (rollout-deploy, set, stop): the service is paused and one request per value is held at the pause gate
	// while the command runs; resumed afterwards, they go where the split in force at their release sends them
	Held bool `json:"held,omitempty"`
}

type c10HistPlan struct {
	Values []string  `json:"values"`
	Steps  []c10Step `json:"steps"`
}

func c10HistGen(t *rapid.T) c10HistPlan {
	p := c10HistPlan{}
	n := rapid.IntRange(3, 8).Draw(t, "nvalues")
	for i := 0; i < n; i++ {
		p.Values = append(p.Values, c10GenValue(t, "value"))
	}
	ns := rapid.IntRange(2, 12).Draw(t, "nsteps")
	for i := 0; i < ns; i++ {
		op := rapid.SampledFrom([]string{"rollout-deploy", "set", "set", "set", "stop", "redeploy", "restart"}).Draw(t, "op")
		st := c10Step{Op: op}
		if op == "set" {
			st.Pct = rapid.SampledFrom([]int{0, 1, 10, 25, 50, 75, 99, 100}).Draw(t, "pct")
			if rapid.IntRange(0, 2).Draw(t, "allow?") == 0 {
				st.Allow = []string{rapid.SampledFrom(p.Values).Draw(t, "allow")}
			}
		}
		if op == "set" || op == "stop" || op == "rollout-deploy" {
			st.Held = rapid.IntRange(0, 3).Draw(t, "held?") == 0
		}
		p.Steps = append(p.Steps, st)
	}
	return p
}

func c10HistRun(t *testing.T, p c10HistPlan) (res vfResult) {
	vfBubble(t, func(w *vfWorld) {
		// side table measured on a pristine service
		ref, err := c10Setup(w, "ref")
		if err != nil {
			res.failf("setup-failed", "%v", err)
			return
		}
		if err := vfRolloutDeploy(ref.r, "svc", ref.roll, 5*time.Second, time.Second); err != nil {
			res.failf("setup-failed", "%v", err)
			return
		}
		synctest.Wait()
		table := map[int]map[string]bool{}
		for _, st := range p.Steps {
			if st.Op == "set" && table[st.Pct] == nil {
				table[st.Pct] = map[string]bool{}
				vfRolloutSet(ref.r, "svc", st.Pct, nil)
				for _, v := range p.Values {
					s, _ := ref.side("kamal-rollout=" + v)
					table[st.Pct][v] = s == "rollout"
				}
			}
		}
		e, err := c10Setup(w, "r0")
		if err != nil {
			res.failf("setup-failed", "%v", err)
			return
		}
		hasTargets, hasSplit := false, false
		var pct int
		var allow []string
		gen := 0
		between := false // a restart/redeploy happened between two observations with a split in force
		for i, st := range p.Steps {
			ctx := fmt.Sprintf("step %d %+v", i, st)
			var err error
			var helds []*vfPending
			if st.Held {
				w.noteWait(31 * time.Second)
				if perr := vfPause(e.r, "svc", time.Second, 30*time.Second); perr != nil {
					res.failf("command-failed", "%s: pause: %v", ctx, perr)
					return
				}
				for _, v := range p.Values {
					req := vfNewRequest("GET", "h.test", "/", nil, nil)
					req.Header.Set("Cookie", "kamal-rollout="+v)
					helds = append(helds, w.goDo(e.r, req))
				}
				synctest.Wait()
			}
			switch st.Op {
			case "rollout-deploy":
				err = vfRolloutDeploy(e.r, "svc", e.roll, 5*time.Second, time.Second)
				if err == nil {
					hasTargets = true
				}
			case "set":
				err = vfRolloutSet(e.r, "svc", st.Pct, st.Allow)
				if hasTargets {
					if err != nil {
						res.failf("set-rejected", "%s: rollout targets exist but set failed: %v", ctx, err)
						return
					}
					hasSplit, pct, allow = true, st.Pct, st.Allow
				} else if vfErrClass(err) != "no-rollout" {
					res.failf("set-before-targets", "%s: no rollout targets were ever deployed, set returned %v, want %v", ctx, err, ErrorRolloutTargetNotSet)
					return
				}
				err = nil
			case "stop":
				err = vfRolloutStop(e.r, "svc")
				hasSplit = false
			case "redeploy":
				opts := ServiceOptions{TLSRedirect: true}
				opts.Normalize()
				err = vfDeploy(e.r, "svc", e.active, opts, vfFastTargetOptions(), 5*time.Second, time.Second)
				if hasSplit {
					between = true
				}
			case "restart":
				gen++
				b, rerr := os.ReadFile(vfPathOf(e.r))
				if rerr != nil {
					res.failf("harness", "read state: %v", rerr)
					return
				}
				np := w.statePath(fmt.Sprintf("r%d", gen))
				os.WriteFile(np, b, 0o644)
				nr := vfNewRouter(np)
				w.adopt(nr)
				if rerr := nr.RestoreLastSavedState(); rerr != nil {
					res.failf("restore-failed", "%s: %v", ctx, rerr)
					return
				}
				// the old process is gone
				vfRemove(e.r, "svc")
				e.r = nr
				res.label("restart")
				if hasSplit {
					between = true
				}
			}
			if err != nil {
				res.failf("command-failed", "%s: %v", ctx, err)
				return
			}
			synctest.Wait()
			if st.Held {
				if rerr := vfResume(e.r, "svc"); rerr != nil {
					res.failf("command-failed", "%s: resume: %v", ctx, rerr)
					return
				}
				for k, v := range p.Values {
					<-helds[k].done
					rp := helds[k].resp
					want, got := "active", "other"
					if hasTargets && hasSplit && (vfContains(allow, v) || table[pct][v]) {
						want = "rollout"
					}
					switch {
					case rp.Status == 200 && vfContains(e.active, rp.Target):
						got = "active"
					case rp.Status == 200 && vfContains(e.roll, rp.Target):
						got = "rollout"
					}
					if got != want {
						res.failf("held-wrong-side", "%s: a request with cookie %q held by a pause while the command ran and released after it went to %s, want %s (targets=%v split=%v pct=%d allow=%q; %v)", ctx, v, got, want, hasTargets, hasSplit, pct, allow, rp)
						return
					}
				}
				res.label("held-through-rollout-command")
			}
			for _, v := range p.Values {
				want := "active"
				if hasTargets && hasSplit && (vfContains(allow, v) || table[pct][v]) {
					want = "rollout"
				}
				got, rp := e.side("kamal-rollout=" + v)
				if got != want {
					res.failf("wrong-side", "%s: cookie %q went to %s, want %s (targets=%v split=%v pct=%d allow=%q; %v)", ctx, v, got, want, hasTargets, hasSplit, pct, allow, rp)
					return
				}
			}
			if s, rp := e.side(""); s != "active" {
				res.failf("no-cookie-not-active", "%s: request without cookie went to %s (%v)", ctx, s, rp)
				return
			}
		}
		res.NonTrivial = between
		if between {
			res.label("restart-or-redeploy-under-split")
		}
	})
	return res
}

func TestVF_C10_History(t *testing.T) {
	vfCheck(t, vfProp[c10HistPlan]{id: "C10", gen: c10HistGen, run: c10HistRun})
}
