//go:build verif && go1.25

package server

// C16 — TLS policy: redirect, refuse, certificates only for bound hosts, sub-paths follow the root.

import (
	"bufio"
	"bytes"
	"context"
	"crypto/tls"
	"encoding/pem"
	"fmt"
	"net/http"
	"os"
	"strings"
	"testing"
	"testing/synctest"
	"time"

	"golang.org/x/crypto/acme/autocert"
	"pgregory.net/rapid"
)

type c16Req struct {
	Host   string `json:"host"`
	Target string `json:"target"` // request-target bytes (origin form)
	TLS    bool   `json:"tls"`
}

type c16Plan struct {
	Cmds    []vfCmd  `json:"cmds"`
	Restart bool     `json:"restart"`
	Reqs    []c16Req `json:"reqs"`
	SNIs    []string `json:"snis"`
}

var (
	c16Hosts    = []string{"a.test", "b.test", "*.test", "::1", "x.a.test"}
	c16Prefixes = []string{"/", "/", "/api", "/app", "/api/v1"}
	c16Targets  = []string{"/up", "/api/up", "/", "/x", "/api", "/api/y?q=1", "/app/", "/api/v1/z?a=b;c&&d=%zz", "/a%2Fb/%41?x=%20", "//double//slash", "/?", "/api?", "/app/q?redirect=http://evil/"}
)

func c16Gen(t *rapid.T) c16Plan {
	p := c16Plan{}
	m := newVFModel()
	n := rapid.IntRange(2, 9).Draw(t, "ncmds")
	for i := 0; i < n; i++ {
		names := vfSortedKeys(m.Svcs)
		if len(names) > 0 && rapid.IntRange(0, 5).Draw(t, "remove?") == 0 {
			c := vfCmd{Op: "remove", Svc: rapid.SampledFrom(names).Draw(t, "rm")}
			m.apply(c)
			p.Cmds = append(p.Cmds, c)
			continue
		}
		if len(names) > 0 && rapid.IntRange(0, 4).Draw(t, "state?") == 0 {
			c := vfCmd{Op: rapid.SampledFrom([]string{"stop", "pause", "resume"}).Draw(t, "state-op"), Svc: rapid.SampledFrom(names).Draw(t, "state-svc"), Msg: "closed", MaxPauseMs: 60000}
			m.apply(c)
			p.Cmds = append(p.Cmds, c)
			continue
		}
		svc := rapid.SampledFrom(vfSvcNames).Draw(t, "svc")
		var spec vfSvcSpec
		ok := false
		for try := 0; try < 6 && !ok; try++ {
			spec = vfSvcSpec{Name: svc}
			nh := rapid.IntRange(1, 2).Draw(t, "nhosts")
			for j := 0; j < nh; j++ {
				h := rapid.SampledFrom(c16Hosts).Draw(t, "host")
				if !vfContains(spec.Hosts, h) {
					spec.Hosts = append(spec.Hosts, h)
				}
			}
			np := rapid.IntRange(1, 2).Draw(t, "nprefixes")
			for j := 0; j < np; j++ {
				x := rapid.SampledFrom(c16Prefixes).Draw(t, "prefix")
				if !vfContains(spec.Prefixes, x) {
					spec.Prefixes = append(spec.Prefixes, x)
				}
			}
			ok = !vfConflict(m.specs(), spec)
		}
		if !ok {
			continue
		}
		opt := vfOpts{}
		if vfContains(spec.Prefixes, "/") {
			opt.TLS = rapid.IntRange(0, 2).Draw(t, "tls")
			if opt.TLS == 2 {
				for _, h := range spec.Hosts {
					if strings.Contains(h, "*") {
						opt.TLS = 1
					}
				}
			}
			opt.NoRedirect = rapid.IntRange(0, 2).Draw(t, "no-redirect") == 0
		}
		if opt.TLS == 0 && len(spec.Hosts) > 0 {
			opt.CertOnly = rapid.IntRange(0, 2).Draw(t, "cert-without-tls") == 0
		}
		if old := m.Svcs[svc]; old != nil && old.Opt.TLS == 1 && rapid.IntRange(0, 2).Draw(t, "tls-off-same-cert") == 0 {
			// the same service again, TLS switched off but the certificate paths still given
			spec, opt = old.Spec, vfOpts{CertOnly: true, NoRedirect: old.Opt.NoRedirect}
		}
		c := vfCmd{Op: "deploy", Svc: svc, Spec: spec, Targets: vfPick(t, vfActivePool, 2, "target"), Opt: opt}
		if got := m.apply(c); got[0] != "ok" {
			panic(fmt.Sprintf("c16Gen: %v", got))
		}
		p.Cmds = append(p.Cmds, c)
	}
	p.Restart = rapid.Bool().Draw(t, "restart")
	nr := rapid.IntRange(3, 14).Draw(t, "nreqs")
	reqHosts := []string{"a.test", "a.test:8080", "b.test:80", "x.a.test", "q.test", "q.test:443", "[::1]:8080", "[::1]", "other.example", "127.0.0.1:80", "y.x.a.test"}
	for i := 0; i < nr; i++ {
		p.Reqs = append(p.Reqs, c16Req{Host: rapid.SampledFrom(reqHosts).Draw(t, "rhost"), Target: rapid.SampledFrom(c16Targets).Draw(t, "rtarget"), TLS: rapid.Bool().Draw(t, "rtls")})
	}
	p.SNIs = []string{"", "a.test", "b.test", "x.a.test", "q.test", "deep.q.test", "other.example", "test"}
	return p
}

func c16ParseRequest(host, target string) (*http.Request, error) {
	raw := "GET " + target + " HTTP/1.1\r\nHost: " + host + "\r\n\r\n"
	req, err := http.ReadRequest(bufio.NewReader(strings.NewReader(raw)))
	if err != nil {
		return nil, err
	}
	req.RemoteAddr = "192.0.2.7:5555"
	return req, nil
}

// c16HostNoPort: the Host header with its port removed, brackets of IPv6 literals kept.
func c16HostNoPort(h string) string {
	if strings.HasPrefix(h, "[") {
		if i := strings.Index(h, "]"); i >= 0 {
			return h[:i+1]
		}
		return h
	}
	if i := strings.LastIndex(h, ":"); i >= 0 && strings.Count(h, ":") == 1 {
		return h[:i]
	}
	return h
}

func c16Check(w *vfWorld, r *Router, m *vfModel, p c16Plan, res *vfResult, ctx string) bool {
	received := func() int {
		n := 0
		for _, tg := range w.targets {
			n += len(tg.reqLog())
		}
		return n
	}
	for _, rq := range p.Reqs {
		req, err := c16ParseRequest(rq.Host, rq.Target)
		if err != nil {
			res.Excluded = "unparsable-request"
			continue
		}
		if rq.TLS {
			req.TLS = &tls.ConnectionState{}
		}
		path := req.URL.Path
		name, _ := vfRefRoute(m.specs(), rq.Host, path)
		s := m.Svcs[name]
		if s == nil {
			continue // 404s are C04's
		}
		if m.tlsAmbiguous(s) {
			res.Excluded = "sub-path service whose hosts disagree about the root service's TLS settings"
			continue
		}
		tlsOn, redirect := m.effTLS(s)
		own := vfContains(s.Spec.normPrefixes(), "/")
		if !own && (tlsOn != (s.Opt.TLS != 0)) {
			res.label("sub-path-policy-differs-from-own-flags")
		}
		if rq.Host != c16HostNoPort(rq.Host) {
			res.label("host-with-port")
		}
		if s.State == "paused" && !(tlsOn && redirect && !rq.TLS) && !(!tlsOn && rq.TLS) && !(req.Method == "GET" && path == s.Opt.healthPath()) {
			continue // would be held: C07's business
		}
		before := received()
		rp := w.do(r, req)
		rctx := fmt.Sprintf("%s: %s request Host=%q target=%q -> service %s (effective tls=%v redirect=%v)", ctx, map[bool]string{false: "http", true: "https"}[rq.TLS], rq.Host, rq.Target, name, tlsOn, redirect)
		switch {
		case tlsOn && redirect && !rq.TLS:
			want := "https://" + c16HostNoPort(rq.Host) + rq.Target
			if rp.Status != http.StatusMovedPermanently {
				res.failf("no-redirect", "%s: got %v, want 301", rctx, rp)
				return false
			}
			if got := rp.Header.Get("Location"); got != want {
				res.failf("redirect-location", "%s: Location %q, want %q", rctx, got, want)
				return false
			}
			if received() != before {
				res.failf("redirect-forwarded", "%s: the plain-HTTP request was also forwarded to a target", rctx)
				return false
			}
			res.label("redirected")
		case !tlsOn && rq.TLS:
			if rp.Status != http.StatusServiceUnavailable || rp.Target != "" || received() != before {
				res.failf("tls-not-refused", "%s: got %v, want 503 from the proxy", rctx, rp)
				return false
			}
			res.label("tls-refused")
		case s.State != "running" && req.Method == "GET" && path == s.Opt.healthPath():
			// only once the TLS policy let the request through: the proxy's own 200 for health checks
			if rp.Status != 200 || rp.Target != "" {
				res.failf("health-not-200", "%s: service is %s, health-check GET got %v, want 200 from the proxy", rctx, s.State, rp)
				return false
			}
			res.label("health-check-while-not-running")
		case s.State == "stopped":
			if rp.Status != http.StatusServiceUnavailable || rp.Target != "" {
				res.failf("stopped-not-503", "%s: service is stopped, got %v", rctx, rp)
				return false
			}
		default:
			if rp.Status != 200 || !vfContains(s.Active, rp.Target) {
				res.failf("not-forwarded", "%s: got %v, want 200 from %v", rctx, rp, s.Active)
				return false
			}
		}
	}
	for _, sni := range p.SNIs {
		name, _ := vfRefRoute(m.specs(), sni, "/")
		s := m.Svcs[name]
		wantCert := sni != "" && s != nil && s.Opt.TLS != 0
		sctx := fmt.Sprintf("%s: SNI %q (root service %q)", ctx, sni, name)
		if wantCert && s.Opt.TLS == 2 {
			// automatic TLS: never ask for a certificate (that would contact ACME); check the host policy instead
			real := r.serviceForHost(sni)
			mgr, ok := real.certManager.(*autocert.Manager)
			if real == nil || !ok {
				res.failf("acme-manager-missing", "%s: expected an automatic certificate manager", sctx)
				return false
			}
			if err := mgr.HostPolicy(context.Background(), sni); err != nil {
				res.failf("acme-policy-rejects-bound-host", "%s: host policy rejects a bound host: %v", sctx, err)
				return false
			}
			for _, other := range []string{"evil.example", "x." + sni, "q.test"} {
				if !vfContains(s.Spec.Hosts, other) && mgr.HostPolicy(context.Background(), other) == nil {
					res.failf("acme-policy-accepts-unbound-host", "%s: host policy accepts %q which is not one of %v", sctx, other, s.Spec.Hosts)
					return false
				}
			}
			continue
		}
		if !wantCert {
			// make sure a wrong answer cannot reach the network: only call when no automatic manager would be asked
			if real := r.serviceForHost(sni); real != nil {
				if _, auto := real.certManager.(*autocert.Manager); auto {
					res.failf("cert-for-unbound-name", "%s: handshake would be answered by an automatic certificate manager although the name is not bound to a TLS service", sctx)
					return false
				}
			}
		}
		cert, err := r.GetCertificate(&tls.ClientHelloInfo{ServerName: sni})
		if wantCert && (err != nil || cert == nil) {
			res.failf("no-cert-for-bound-name", "%s: want a certificate, got err=%v", sctx, err)
			return false
		}
		if !wantCert && err == nil {
			res.failf("cert-for-unbound-name", "%s: a certificate was served for a name not bound to a TLS-enabled service", sctx)
			return false
		}
	}
	return true
}

// c16Handshakes: real TLS handshakes against the proxy's own HTTPS server (Server.startHTTPServers on the
// in-memory network): a name bound to a service with a static certificate gets exactly that certificate and
// a request sent over the connection is treated as an HTTPS request (forwarded, not redirected); any other
// name - and a hello without a name - fails the handshake. Names whose root service has automatic TLS are
// left out (a handshake would contact the ACME directory).
func c16Handshakes(w *vfWorld, r *Router, m *vfModel, p c16Plan, res *vfResult, ctx string, frontHost string) bool {
	w.front(r, frontHost+":80")
	pemBytes, err := os.ReadFile(vfFix.cert)
	if err != nil {
		res.failf("harness", "fixture certificate: %v", err)
		return false
	}
	block, _ := pem.Decode(pemBytes)
	for _, sni := range p.SNIs {
		name, _ := vfRefRoute(m.specs(), sni, "/")
		s := m.Svcs[name]
		wantCert := sni != "" && s != nil && s.Opt.TLS != 0
		if s != nil && s.Opt.TLS == 2 {
			continue
		}
		if real := r.serviceForHost(sni); real != nil {
			if _, auto := real.certManager.(*autocert.Manager); auto {
				continue // c16Check reports this; never let it reach the network
			}
		}
		sctx := fmt.Sprintf("%s: TLS handshake with server name %q (root service %q)", ctx, sni, name)
		conn, err := w.net.DialFrom(context.Background(), c13ClientIP, frontHost+":443")
		if err != nil {
			res.failf("harness", "%s: dial: %v", sctx, err)
			return false
		}
		conn.SetDeadline(time.Now().Add(10 * time.Second))
		tc := tls.Client(conn, &tls.Config{ServerName: sni, InsecureSkipVerify: true, NextProtos: []string{"http/1.1"}})
		herr := tc.Handshake()
		switch {
		case wantCert && herr != nil:
			conn.Close()
			res.failf("handshake-fails-for-bound-name", "%s: want the service's certificate, the handshake failed: %v", sctx, herr)
			return false
		case !wantCert && herr == nil:
			conn.Close()
			res.failf("handshake-succeeds-for-unbound-name", "%s: the handshake succeeded although the name is not bound to a TLS-enabled service", sctx)
			return false
		case !wantCert:
			conn.Close()
			res.label("handshake-refused")
			continue
		}
		if pcs := tc.ConnectionState().PeerCertificates; len(pcs) == 0 || !bytes.Equal(pcs[0].Raw, block.Bytes) {
			conn.Close()
			res.failf("wrong-certificate", "%s: the certificate served is not the one the service was deployed with", sctx)
			return false
		}
		// a request over the connection is an HTTPS request: forwarded (or answered per the service's state), never redirected
		if s.State == "running" && !m.tlsAmbiguous(s) {
			fmt.Fprintf(tc, "GET /hs HTTP/1.1\r\nHost: %s\r\nConnection: close\r\n\r\n", sni)
			resp, rerr := http.ReadResponse(bufio.NewReader(tc), nil)
			if rerr != nil {
				conn.Close()
				res.failf("https-request-failed", "%s: request over the TLS connection: %v", sctx, rerr)
				return false
			}
			resp.Body.Close()
			if resp.StatusCode != 200 || !vfContains(s.Active, resp.Header.Get("X-Vf-Target")) {
				conn.Close()
				res.failf("https-request-not-forwarded", "%s: a request over the TLS connection got %d (Location %q, target %q), want 200 from %v", sctx, resp.StatusCode, resp.Header.Get("Location"), resp.Header.Get("X-Vf-Target"), s.Active)
				return false
			}
			res.label("https-request-over-real-handshake")
		}
		conn.Close()
		res.label("handshake-served-static-certificate")
	}
	return true
}

func c16Run(t *testing.T, p c16Plan) (res vfResult) {
	vfBubble(t, func(w *vfWorld) {
		vfSetupWorldTargets(w)
		r := w.newRouter("r")
		m := newVFModel()
		for i, c := range p.Cmds {
			want := m.apply(c)
			got := vfExec(w, r, c)
			if got.Panicked != "" || !vfClassOK(want, vfErrClass(got.Err)) {
				res.failf("wrong-result", "step %d %s: result %q panic=%q, model accepts %v", i, c, vfErrClass(got.Err), got.Panicked, want)
				return
			}
			synctest.Wait()
			if !vfCheckList(r, m, &res, fmt.Sprintf("step %d %s", i, c)) {
				return
			}
			if !c16Check(w, r, m, p, &res, fmt.Sprintf("after step %d %s", i, c)) {
				return
			}
		}
		// automatic TLS with a wildcard host is refused and changes nothing
		bad := vfCmd{Op: "deploy", Svc: "wild", Spec: vfSvcSpec{Name: "wild", Hosts: []string{"*.wild.test"}}, Targets: []string{"tf0:80"}, Opt: vfOpts{TLS: 2}}
		if got := vfExec(w, r, bad); vfErrClass(got.Err) != "tls-wildcard" {
			res.failf("wildcard-acme-accepted", "automatic TLS for a wildcard host returned %v", got.Err)
			return
		}
		if !vfCheckList(r, m, &res, "after refused wildcard deploy") {
			return
		}
		if !c16Handshakes(w, r, m, p, &res, "final state", "front") {
			return
		}
		if p.Restart {
			raw, err := os.ReadFile(vfPathOf(r))
			if err != nil {
				res.failf("no-state-file", "%v", err)
				return
			}
			os.WriteFile(w.statePath("r2"), raw, 0o644)
			r2 := vfNewRouter(w.statePath("r2"))
			w.adopt(r2)
			if err := r2.RestoreLastSavedState(); err != nil {
				res.failf("restore-failed", "restore: %v", err)
				return
			}
			synctest.Wait()
			if !vfCheckList(r2, m, &res, "after restart") || !c16Check(w, r2, m, p, &res, "after restart") || !c16Handshakes(w, r2, m, p, &res, "after restart", "front2") {
				return
			}
			res.label("restart")
		}
		res.NonTrivial = vfHasLabel(res, "sub-path-policy-differs-from-own-flags") || vfHasLabel(res, "host-with-port")
	})
	return res
}

func TestVF_C16(t *testing.T) {
	vfCheck(t, vfProp[c16Plan]{id: "C16", gen: c16Gen, run: c16Run})
}
