//go:build verif && go1.25

package server

// C12 — the state file is always one complete, current snapshot: every step boundary of every
// snapshot write is a crash point; overlapping commands interleave their snapshot steps.

import (
	"fmt"
	"os"
	"runtime"
	"sort"
	"strings"
	"testing"
	"testing/synctest"
	"time"

	"pgregory.net/rapid"
)

type c12Plan struct {
	Setup  []vfCmd   `json:"setup"`
	Groups [][]vfCmd `json:"groups"` // commands of one group overlap; groups run one after the other
	Sched  []int     `json:"sched"`
	// Contend: an actor about to begin its snapshot may go ahead even while another one sits inside its own
	// (it then queues on the snapshot lock, out of the scheduler's sight, and writes as soon as the lock is free)
	Contend bool `json:"contend,omitempty"`
}

func c12Gen(t *rapid.T) c12Plan {
	p := c12Plan{}
	m := newVFModel()
	cfg := vfGenCfg{Options: false, Pause: true}
	ns := rapid.IntRange(0, 4).Draw(t, "nsetup")
	for i := 0; i < ns; i++ {
		p.Setup = append(p.Setup, vfGenOKCmd(t, m, cfg))
	}
	ng := rapid.IntRange(2, 8).Draw(t, "ngroups")
	for g := 0; g < ng; g++ {
		size := rapid.SampledFrom([]int{1, 1, 1, 2, 2, 3}).Draw(t, "group-size")
		var group []vfCmd
		used := map[string]bool{}
		if size == 1 && rapid.IntRange(0, 4).Draw(t, "failing") == 0 {
			c := vfGenFailCmd(t, m)
			c.DeployMs = 300
			group = append(group, c)
		} else {
			for len(group) < size {
				// commands of a group touch different services and cannot conflict, so they commute
				scratch := m.clone()
				c := vfGenOKCmd(t, scratch, cfg)
				if used[c.Svc] {
					if len(group) > 0 {
						break
					}
					continue
				}
				if c.Op == "deploy" && m.Svcs[c.Svc] == nil {
					c.Spec = vfSvcSpec{Name: c.Svc, Hosts: []string{c.Svc + ".own.test"}}
				} else if c.Op == "deploy" {
					c.Spec = m.Svcs[c.Svc].Spec
				}
				used[c.Svc] = true
				group = append(group, c)
			}
			for _, c := range group {
				if got := m.apply(c); got[0] != "ok" {
					panic(fmt.Sprintf("c12Gen: %s -> %v", c, got))
				}
			}
		}
		p.Groups = append(p.Groups, group)
	}
	p.Contend = rapid.Bool().Draw(t, "contend")
	n := rapid.IntRange(0, 40).Draw(t, "nsched")
	for i := 0; i < n; i++ {
		p.Sched = append(p.Sched, rapid.IntRange(0, 5).Draw(t, "choice"))
	}
	return p
}

// c12Allowed: the summaries of every configuration in force while `pending` commands are in progress.
func c12Allowed(base *vfModel, pending []vfCmd) []map[string]string {
	var out []map[string]string
	for mask := 0; mask < 1<<len(pending); mask++ {
		m := base.clone()
		for i, c := range pending {
			if mask&(1<<i) != 0 {
				m.apply(c)
			}
		}
		out = append(out, m.summary())
	}
	return out
}

func c12FileMatches(path string, allowed []map[string]string) (bool, string) {
	b, err := os.ReadFile(path)
	var got map[string]string
	if err != nil {
		if !os.IsNotExist(err) {
			return false, err.Error()
		}
		got = map[string]string{} // no file yet: an empty configuration
	} else {
		saved, _, perr := vfParseState(b)
		if perr != nil {
			return false, perr.Error()
		}
		got = vfSavedSummary(saved)
	}
	var diffs []string
	for _, a := range allowed {
		d := vfDiffMaps(a, got)
		if d == "" {
			return true, ""
		}
		diffs = append(diffs, d)
	}
	return false, fmt.Sprintf("the file holds %v which is none of the %d configurations in force; nearest difference:\n%s", got, len(allowed), diffs[len(diffs)-1])
}

func c12Run(t *testing.T, p c12Plan) (res vfResult) {
	vfBubble(t, func(w *vfWorld) {
		vfSetupWorldTargets(w)
		r := w.newRouter("r")
		m := newVFModel()
		for i, c := range p.Setup {
			want := m.apply(c)
			if got := vfExec(w, r, c); got.Panicked != "" || !vfClassOK(want, vfErrClass(got.Err)) {
				res.failf("setup-failed", "setup %d %s: %v %s", i, c, got.Err, got.Panicked)
				return
			}
		}
		synctest.Wait()
		if ok, why := c12FileMatches(vfPathOf(r), []map[string]string{m.summary()}); !ok {
			res.failf("stale-after-return", "after the setup commands returned: %s", why)
			return
		}
		sc := newVFSched(w, []string{"snapshot.begin", "snapshot.listed", "snapshot.created", "snapshot.written", "snapshot.renamed"}, nil)
		defer vfCurSched.Store(nil)
		si := 0
		nextChoice := func() int {
			if si < len(p.Sched) {
				si++
				return p.Sched[si-1]
			}
			return 0
		}
		crashPoints, insideWrite, overlapped := 0, false, false
		restoreProbe := 0
		removedDuringImage := false
		for gi, group := range p.Groups {
			base := m.clone()
			results := make([]vfCmdResult, len(group))
			started := 0
			startNext := func() {
				ci, c := started, group[started]
				started++
				sc.spawn(fmt.Sprintf("g%dc%d", gi, ci), func() { results[ci] = vfExec(w, r, c) })
			}
			startNext()
			for guard := 0; ; guard++ {
				quiescent := c12Settle(r, sc)
				parked := sc.parkedActors()
				var pending, done []vfCmd
				allDone := true
				for ci, c := range group {
					if ci < started && sc.isFinished(fmt.Sprintf("g%dc%d", gi, ci)) {
						done = append(done, c)
					} else {
						if ci < started {
							pending = append(pending, c)
						}
						allDone = false
					}
				}
				if allDone {
					break
				}
				if guard > 5000 {
					res.failf("command-hangs", "group %d never finished (parked=%v)", gi, parked)
					return
				}
				if len(parked) == 0 {
					if !quiescent {
						continue // somebody still holds the snapshot lock and has not parked yet: look again
					}
					if started < len(group) {
						startNext()
						continue
					}
					time.Sleep(100 * time.Millisecond) // somebody waits on a timer (failing deploy)
					continue
				}
				// every parked actor sits at a step boundary of a snapshot write: a kill now leaves the file as it is
				cur := base.clone()
				for _, c := range done {
					cur.apply(c)
				}
				allowed := c12Allowed(cur, pending)
				crashPoints++
				where := []string{}
				for _, a := range parked {
					where = append(where, a+"@"+sc.parkedAt(a))
					if pt := sc.parkedAt(a); pt == "snapshot.created" || pt == "snapshot.written" || pt == "snapshot.listed" {
						insideWrite = true
					}
				}
				if len(parked) > 1 {
					overlapped = true
				}
				if ok, why := c12FileMatches(vfPathOf(r), allowed); !ok {
					sig := "crash-point-bad-snapshot"
					if strings.Contains(why, "not a complete snapshot") {
						sig = "crash-point-truncated"
					}
					res.failf(sig, "a kill while %v (group %d: %v) would leave a state file that is not a complete snapshot of a configuration in force: %s", where, gi, group, why)
					return
				}
				// does a fresh proxy really start from what a kill here leaves in the data directory (the state file
				// and whatever sits next to it)? Always inside a write, now and then elsewhere.
				inside := false
				for _, a := range parked {
					if pt := sc.parkedAt(a); pt == "snapshot.created" || pt == "snapshot.written" {
						inside = true
					}
				}
				if (inside && restoreProbe < 6) || (restoreProbe < 2 && nextChoice()%3 == 0) {
					restoreProbe++
					img := fmt.Sprintf("%s/crash%d", w.dir, crashPoints)
					os.Mkdir(img, 0o755)
					ents, _ := os.ReadDir(w.dir)
					for _, e := range ents {
						if !e.IsDir() && strings.HasPrefix(e.Name(), "r.state") {
							if b, err := os.ReadFile(w.dir + "/" + e.Name()); err == nil {
								os.WriteFile(img+"/"+e.Name(), b, 0o644)
							}
						}
					}
					// a restart only reads: should it write, every step of such a write is a place to be killed at as well,
					// and the image must then still describe a configuration in force
					restoreWrote, restoreBad := 0, ""
					// (the restoring goroutine is not one of the controller's actors and passes the hooks; the actors keep
					// parking at them - while this goroutine waits inside a restart, virtual time may pass and let a deploy
					// that was waiting for a probe reach its snapshot: were it let through, it would queue on the snapshot
					// lock behind a parked holder, invisibly to the bubble, and the case would hang. It did, once in the
					// thorough tier.)
					sc.mu.Lock()
					restorer := vfGoID()
					sc.observe = func(pt string) {
						if vfGoID() != restorer || !strings.HasPrefix(pt, "snapshot.") || removedDuringImage {
							return
						}
						restoreWrote++
						if ok, why := c12FileMatches(img+"/r.state", allowed); !ok && restoreBad == "" {
							restoreBad = fmt.Sprintf("at %s: %s", pt, why)
						}
					}
					sc.mu.Unlock()
					var gotLists []map[string]string
					var rerr error
					removed := ""
					for start := 0; start < 3 && rerr == nil; start++ { // the next start, the one after it, and one after a command
						nr := vfNewRouter(img + "/r.state")
						rerr = nr.RestoreLastSavedState()
						gl := map[string]string{}
						for n, row := range vfRealList(nr) {
							gl[n] = row.Target + "|" + row.State
						}
						if removed != "" {
							// the second start ran `remove`: this start must show exactly the others
							if _, still := gl[removed]; still || len(gl) != len(gotLists[0])-1 {
								sc.mu.Lock()
								sc.observe = nil
								sc.mu.Unlock()
								res.failf("crash-image-then-command", "after a kill while %v, a restart, `remove %s` and another restart the proxy lists %v (first restart listed %v)", where, removed, gl, gotLists[0])
								return
							}
						} else {
							gotLists = append(gotLists, gl)
						}
						names := []string{}
						for n := range gl {
							names = append(names, n)
						}
						sort.Strings(names)
						if start == 1 && len(names) > 0 && rerr == nil {
							// the restarted proxy goes on working: a command that makes the state smaller
							removedDuringImage = true
							if err := vfRemove(nr, names[0]); err != nil {
								rerr = err
							}
							removed = names[0]
							names = names[1:]
						}
						for _, n := range names { // the restarted process goes away again (without rewriting the image)
							nr.services.Get(n).Dispose()
						}
					}
					sc.mu.Lock()
					sc.observe = nil
					sc.mu.Unlock()
					removedDuringImage = false
					if restoreBad != "" {
						res.failf("restart-rewrites-state-piecemeal", "a start from the image a kill while %v left writes the state file again, and a kill during that start-up (%s) would leave a file that is not a complete snapshot of a configuration in force", where, restoreBad)
						return
					}
					if restoreWrote > 0 {
						res.label("restart-wrote-the-state-file")
					}
					if rerr != nil {
						res.failf("crash-point-restore-fails", "a kill while %v leaves a data directory the next start cannot restore: %v", where, rerr)
						return
					}
					for gi2, gotList := range gotLists {
						match := false
						for mask := 0; mask < 1<<len(pending); mask++ {
							mm := cur.clone()
							for i, c := range pending {
								if mask&(1<<i) != 0 {
									mm.apply(c)
								}
							}
							wantList := map[string]string{}
							for n, row := range mm.list() {
								wantList[n] = row.Target + "|" + row.State
							}
							if vfDiffMaps(wantList, gotList) == "" {
								match = true
							}
						}
						if !match {
							res.failf("crash-point-restore-differs", "start #%d after a kill while %v lists %v, none of the configurations in force", gi2+1, where, gotList)
							return
						}
					}
					res.label("restored-from-crash-image")
				}
				// Without Contend an actor waiting to begin its snapshot only goes ahead while nobody holds the snapshot
				// lock; with it, it may queue on the mutex (which the bubble cannot see as idle: c12Settle then waits a
				// bounded number of yields instead, and the queued actor simply counts as pending). (If the lock were not
				// taken by the code, TryLock always succeeds and the writers' steps interleave freely.)
				var movable []string
				for _, a := range parked {
					if sc.parkedAt(a) == "snapshot.begin" && !p.Contend {
						if !r.snapshotLock.TryLock() {
							continue
						}
						r.snapshotLock.Unlock()
					}
					movable = append(movable, a)
				}
				if len(movable) == 0 {
					res.failf("harness", "every parked actor waits for the snapshot lock, nobody holds it: %v", where)
					return
				}
				// starting the next command of the group is a move too: a later command may run to completion while
				// an earlier one sits between two steps of its snapshot
				nmoves := len(movable)
				if started < len(group) {
					nmoves++
				}
				if k := nextChoice() % nmoves; k < len(movable) {
					if sc.parkedAt(movable[k]) == "snapshot.begin" {
						if r.snapshotLock.TryLock() {
							r.snapshotLock.Unlock()
						} else {
							res.label("writer-queued-behind-a-parked-writer")
						}
					}
					sc.release(movable[k])
				} else {
					startNext()
				}
			}
			for ci, c := range group {
				want := m.apply(c)
				if results[ci].Panicked != "" || !vfClassOK(want, vfErrClass(results[ci].Err)) {
					res.failf("wrong-result", "group %d command %s: result %q panic=%q, model accepts %v", gi, c, vfErrClass(results[ci].Err), results[ci].Panicked, want)
					return
				}
			}
			synctest.Wait()
			if ok, why := c12FileMatches(vfPathOf(r), []map[string]string{m.summary()}); !ok {
				sig := "stale-after-return"
				if len(group) > 1 {
					sig = "stale-after-overlap"
				}
				res.failf(sig, "after every command of group %d (%v) returned, the state file does not describe the configuration in force: %s", gi, group, why)
				return
			}
			if !vfCheckList(r, m, &res, fmt.Sprintf("after group %d", gi)) {
				return
			}
		}
		// no temporary files are left next to the state file
		ents, _ := os.ReadDir(w.dir)
		for _, e := range ents {
			if strings.Contains(e.Name(), "r.state") && e.Name() != "r.state" {
				res.failf("temp-file-left", "a temporary snapshot file was left behind: %s", e.Name())
				return
			}
		}
		res.NonTrivial = insideWrite
		if insideWrite {
			res.label("crash-point-inside-write")
		}
		if overlapped {
			res.label("overlapping-snapshot-writers")
		}
		res.label(fmt.Sprintf("crash-points:%d", min(crashPoints/10*10, 50)))
	})
	return res
}

// c12Settle waits until the actors have gone as far as they can. While nobody holds the snapshot lock this is
// plain quiescence; while a parked actor holds it, others may be blocked on that mutex - which a bubble never
// counts as idle - so the wait is a bounded number of yields instead.
func c12Settle(r *Router, sc *vfSched) (quiescent bool) {
	for spins := 0; spins < 200000; spins++ {
		// An actor released from a snapshot point is on its way to the next one (or to the end of its command), and
		// somewhere on that way is the snapshot lock: it gets it, or it queues behind a holder that is parked. While
		// there is such an actor the harness must not block (synctest.Wait, a sleep): a goroutine waiting for a mutex
		// is never idle in the bubble's eyes, and the holder only moves when the harness releases it. (Nothing between
		// two snapshot points, or after the last one, needs virtual time to pass.)
		if !sc.releasedFrom("") {
			synctest.Wait()
			return true
		}
		holderParked := false
		for _, a := range sc.parkedActors() {
			if pt := sc.parkedAt(a); pt != "snapshot.begin" {
				holderParked = true
			}
		}
		if holderParked && spins > 1500 {
			return false
		}
		runtime.Gosched()
	}
	return false
}

func TestVF_C12(t *testing.T) {
	vfCheck(t, vfProp[c12Plan]{id: "C12", gen: c12Gen, run: c12Run})
}
