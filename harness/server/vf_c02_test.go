//go:build verif && go1.25

package server

// C02 — no request fails while a service is redeployed (schedule-controlled).

import (
	"crypto/tls"
	"encoding/json"
	"fmt"
	"strings"
	"testing"
	"testing/synctest"
	"time"

	"pgregory.net/rapid"
)

type c02Plan struct {
	Sets  []int `json:"sets"`   // Sets[0]: targets in place; Sets[1:]: successive redeploys
	Durs  []int `json:"durs"`   // one request per entry: service time at the target in ms
	Sched []int `json:"sched"`  // recorded choices of the controller
	PCT   bool  `json:"pct"`    // priority-based picking instead of uniform
	Prio  []int `json:"prio"`   // priorities per actor (requests first, then deploys, then probes)
	Avoid bool  `json:"avoid"`  // steer around the shapes of the listed known findings
	Probe bool  `json:"probe"`  // also park probe goroutines between state change and rotation update
	DeployMs int `json:"deploy_ms"` // deploy timeout of the redeploys (the drain timeout stays far above every service time)
	TLSRoot  bool  `json:"tls_root"` // the service sits on a sub-path of a host whose root service has TLS; requests come over TLS
	Offer    []int `json:"offer"`    // requests (by index) that offer a protocol upgrade the target ignores
	// TargetTimeoutMs > 0: the service's target timeout (it bounds the wait for response HEADERS only) is this short,
	// and every request is an event stream whose headers and first event come at once and whose last event comes
	// after its service time: such requests outlive the target timeout and must still finish within the drain timeout
	TargetTimeoutMs int `json:"target_timeout_ms,omitempty"`
}

func c02Gen(t *rapid.T) c02Plan {
	p := c02Plan{}
	p.Sets = []int{rapid.IntRange(1, 2).Draw(t, "old")}
	nd := rapid.IntRange(1, 3).Draw(t, "ndeploys")
	for i := 0; i < nd; i++ {
		p.Sets = append(p.Sets, rapid.IntRange(1, 3).Draw(t, "new"))
	}
	nr := rapid.IntRange(1, 6).Draw(t, "nreqs")
	for i := 0; i < nr; i++ {
		p.Durs = append(p.Durs, rapid.SampledFrom([]int{0, 0, 10, 50, 300, 800}).Draw(t, "dur"))
	}
	ns := rapid.IntRange(5, 60).Draw(t, "nsched")
	for i := 0; i < ns; i++ {
		p.Sched = append(p.Sched, rapid.IntRange(0, 23).Draw(t, "choice"))
	}
	p.PCT = rapid.Bool().Draw(t, "pct")
	for i := 0; i < nr+nd+6; i++ {
		p.Prio = append(p.Prio, rapid.IntRange(0, 9).Draw(t, "prio"))
	}
	p.Avoid = rapid.IntRange(0, 6).Draw(t, "avoid") > 0
	p.Probe = rapid.Bool().Draw(t, "probe")
	p.DeployMs = rapid.SampledFrom([]int{50, 300, 5000}).Draw(t, "deploy-timeout")
	p.TLSRoot = rapid.IntRange(0, 3).Draw(t, "tls-root") == 0
	if rapid.IntRange(0, 4).Draw(t, "target-timeout?") == 0 {
		p.TargetTimeoutMs = rapid.SampledFrom([]int{5, 20, 100}).Draw(t, "target-timeout")
	}
	for i := 0; i < nr; i++ {
		if rapid.IntRange(0, 4).Draw(t, "offer") == 0 {
			p.Offer = append(p.Offer, i)
		}
	}
	return p
}

type c02ReqOut struct {
	resp *vfResp
}

func c02Run(t *testing.T, p c02Plan) (res vfResult) {
	vfBubble(t, func(w *vfWorld) {
		r := w.newRouter("r")
		opts := ServiceOptions{Hosts: []string{"svc.test"}, TLSRedirect: true}
		path := "/x"
		if p.TLSRoot {
			vfFixtures()
			w.target("root0:80")
			ro := ServiceOptions{Hosts: []string{"svc.test"}, TLSEnabled: true, TLSCertificatePath: vfFix.cert, TLSPrivateKeyPath: vfFix.key, TLSRedirect: true}
			ro.Normalize()
			if err := vfDeploy(r, "root", []string{"root0:80"}, ro, vfFastTargetOptions(), 5*time.Second, time.Second); err != nil {
				res.failf("setup-failed", "root deploy: %v", err)
				return
			}
			opts.PathPrefixes = []string{"/api"}
			path = "/api/x"
		}
		opts.Normalize()
		to := vfFastTargetOptions()
		if p.TargetTimeoutMs > 0 {
			to.ResponseTimeout = vfMs(p.TargetTimeoutMs)
			res.label("streams-outliving-the-target-timeout")
		}
		to.HealthCheckConfig.Interval = 100 * time.Millisecond // probes complete while drains are in progress
		w.noteInterval(100 * time.Millisecond)
		deployTimeout := vfMs(p.DeployMs)
		if deployTimeout <= 0 || p.Probe {
			// with probe goroutines parked by the controller, "became healthy in time" is the controller's doing
			deployTimeout = 5 * time.Second
		}
		sets := make([][]string, len(p.Sets))
		for j, n := range p.Sets {
			for i := 0; i < n; i++ {
				name := fmt.Sprintf("s%dt%d:80", j, i)
				w.target(name)
				sets[j] = append(sets[j], name)
			}
		}
		const drain = 60 * time.Second
		if err := vfDeploy(r, "svc", sets[0], opts, to, 5*time.Second, drain); err != nil {
			res.failf("setup-failed", "setup deploy: %v", err)
			return
		}
		synctest.Wait()

		probePts := []string{}
		if p.Probe {
			probePts = []string{"target.health-changed"}
		}
		sc := newVFSched(w, []string{"service.entry", "service.after-gate", "target.claimed", "deploy.before-install", "deploy.installed"}, probePts)
		nreq, ndep := len(p.Durs), len(p.Sets)-1
		outs := make([]*vfResp, nreq)
		cmdRes := make([]vfCmdResult, ndep+1)
		reqActor := func(i int) string { return fmt.Sprintf("req%d", i) }
		cmdActor := func(k int) string { return fmt.Sprintf("cmd%d", k) }
		prio := map[string]int{}
		if p.PCT {
			for i := 0; i < nreq; i++ {
				prio[reqActor(i)] = p.Prio[i%len(p.Prio)]
			}
			for k := 1; k <= ndep; k++ {
				prio[cmdActor(k)] = p.Prio[(nreq+k)%len(p.Prio)]
			}
		} else {
			prio = nil
		}
		startReq := func(i int) {
			sc.spawn(reqActor(i), func() {
				req := vfNewRequest("GET", "svc.test", path, &vfCtl{ID: reqActor(i), DurMs: p.Durs[i], SSE: p.TargetTimeoutMs > 0}, nil)
				if p.TLSRoot {
					req.TLS = &tls.ConnectionState{}
				}
				for _, k := range p.Offer {
					if k == i { // an upgrade the target does not take up: an ordinary request for all purposes
						req.Header.Set("Connection", "Upgrade")
						req.Header.Set("Upgrade", "h2c")
					}
				}
				outs[i] = w.do(r, req)
			})
		}
		startCmd := func(k int) {
			sc.spawn(cmdActor(k), func() {
				cmdRes[k] = w.runCmd(func() error { return vfDeploy(r, "svc", sets[k], opts, to, deployTimeout, drain) })
			})
		}
		nextReq, nextCmd := 0, 1
		forced := 0
		var trace []string
		enabled := func() []vfMove {
			var moves []vfMove
			if nextReq < nreq {
				moves = append(moves, vfMove{Kind: "start", Actor: reqActor(nextReq)})
			}
			if nextCmd <= ndep && (nextCmd == 1 || sc.isFinished(cmdActor(nextCmd-1))) {
				moves = append(moves, vfMove{Kind: "start", Actor: cmdActor(nextCmd)})
			}
			for _, a := range sc.parkedActors() {
				moves = append(moves, vfMove{Kind: "release", Actor: a})
			}
			moves = append(moves, vfMove{Kind: "advance", D: 10 * time.Millisecond}, vfMove{Kind: "advance", D: 100 * time.Millisecond})
			return moves
		}
		// avoidStale: before a deploy swaps the table, let every request that already holds the service finish claiming
		avoidStale := func() {
			for round := 0; round < 10; round++ {
				moved := false
				for i := 0; i < nreq; i++ {
					if pt := sc.parkedAt(reqActor(i)); pt == "service.entry" || pt == "service.after-gate" {
						sc.release(reqActor(i))
						forced++
						moved = true
					}
				}
				if !moved {
					return
				}
				synctest.Wait()
			}
		}
		do := func(m vfMove) {
			trace = append(trace, m.String())
			switch m.Kind {
			case "start":
				if strings.HasPrefix(m.Actor, "req") {
					startReq(nextReq)
					nextReq++
				} else {
					startCmd(nextCmd)
					nextCmd++
				}
			case "release":
				if p.Avoid && sc.parkedAt(m.Actor) == "deploy.before-install" {
					avoidStale()
				}
				sc.release(m.Actor)
			case "advance":
				time.Sleep(m.D)
			}
		}
		for _, c := range p.Sched {
			synctest.Wait()
			do(vfPickMove(enabled(), c, prio))
		}
		// the schedule is over: let everything run to completion
		synctest.Wait()
		if p.Avoid {
			avoidStale()
		}
		sc.stop()
		for guard := 0; guard < 400; guard++ {
			synctest.Wait()
			if nextReq < nreq {
				startReq(nextReq)
				nextReq++
				continue
			}
			if nextCmd <= ndep && (nextCmd == 1 || sc.isFinished(cmdActor(nextCmd-1))) {
				startCmd(nextCmd)
				nextCmd++
				continue
			}
			all := true
			for i := 0; i < nreq; i++ {
				all = all && sc.isFinished(reqActor(i))
			}
			for k := 1; k <= ndep; k++ {
				all = all && sc.isFinished(cmdActor(k))
			}
			if all {
				break
			}
			time.Sleep(50 * time.Millisecond)
		}
		synctest.Wait()
		vfCurSched.Store(nil)
		evs := sc.eventsCopy()
		history := func() string {
			b, _ := json.Marshal(trace)
			return "moves=" + string(b) + "\nevents:\n" + vfTrace(evs)
		}
		for k := 1; k <= ndep; k++ {
			if !sc.isFinished(cmdActor(k)) {
				res.failf("deploy-hangs", "deploy %d never returned\n%s", k, history())
				return
			}
			if cmdRes[k].Err != nil || cmdRes[k].Panicked != "" {
				res.failf("deploy-failed", "deploy %d of healthy targets failed: %v %s\n%s", k, cmdRes[k].Err, cmdRes[k].Panicked, history())
				return
			}
		}
		const inf = 1 << 30
		bi := make([]int, ndep+2)   // before-install release = the table swap follows
		ins := make([]int, ndep+2)  // installed point = the drain follows
		for k := 1; k <= ndep; k++ {
			bi[k] = vfFirstSeq(evs, cmdActor(k), "point", "deploy.before-install")
			ins[k] = vfFirstSeq(evs, cmdActor(k), "point", "deploy.installed")
			if bi[k] < 0 {
				bi[k] = inf
			}
			if ins[k] < 0 {
				ins[k] = inf
			}
		}
		ins[ndep+1] = inf
		interesting := false
		for i := 0; i < nreq; i++ {
			a := reqActor(i)
			if !sc.isFinished(a) || outs[i] == nil {
				res.failf("request-hangs", "request %s never finished\n%s", a, history())
				return
			}
			start, end := vfFirstSeq(evs, a, "start", ""), vfFirstSeq(evs, a, "end", "")
			entry := vfFirstSeq(evs, a, "point", "service.entry")
			var allowed []string
			for j := 0; j <= ndep; j++ {
				from := -1
				if j > 0 {
					from = bi[j]
				}
				if from <= end && start <= ins[j+1] {
					allowed = append(allowed, sets[j]...)
				}
			}
			for k := 1; k <= ndep; k++ {
				if start < bi[k] && bi[k] < end || start < ins[k] && ins[k] < end {
					interesting = true
					res.label("request-spans-swap-or-drain-start")
				}
			}
			rp := outs[i]
			okBody := strings.Contains(string(rp.Body), "\"id\":\""+a+"\"")
			if p.TargetTimeoutMs > 0 {
				okBody = strings.Contains(string(rp.Body), "data: second") // the stream ran to its end
			}
			if rp.Status == 200 && rp.Target != "" && okBody && vfContains(allowed, rp.Target) {
				continue
			}
			// classify
			sig := "request-failed"
			for k := 1; k <= ndep; k++ {
				swap := vfFirstSeq(evs, cmdActor(k), "release", "deploy.before-install")
				if swap < 0 {
					swap = bi[k]
				}
				// the listed finding: the request held the pre-swap service and was REFUSED at the claim (503, never
				// claimed a target) after the drain of deploy k had begun
				claimed := vfFirstSeq(evs, a, "point", "target.claimed") >= 0
				if entry >= 0 && entry < swap && end > ins[k] && ins[k] != inf && rp.Status == 503 && !claimed {
					sig = "stale-service-claim"
				}
			}
			if rp.Status == 200 && rp.Target != "" && !vfContains(allowed, rp.Target) {
				sig = "served-by-foreign-set"
			}
			res.failf(sig, "request %s (service time %dms) got %v, want 200 from one of %v\n%s", a, p.Durs[i], rp, allowed, history())
			return
		}
		res.NonTrivial = interesting
		if forced > 0 {
			res.label("avoided-known-shape")
		}
		if p.Avoid {
			res.label("mode:avoid")
		} else {
			res.label("mode:free")
		}
		if p.PCT {
			res.label("strategy:pct")
		} else {
			res.label("strategy:uniform")
		}
	})
	return res
}

func TestVF_C02(t *testing.T) {
	vfCheck(t, vfProp[c02Plan]{id: "C02", gen: c02Gen, run: c02Run})
}
