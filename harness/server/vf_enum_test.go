//go:build verif && go1.25

package server

// Exhaustive enumeration runner: same stats / fail-file / replay conventions as vfCheck, no rapid.

import (
	"encoding/json"
	"fmt"
	"os"
	"strconv"
	"testing"
)

type vfEnum[P any] struct {
	id    string
	cases func(yield func(P) bool) // enumerates the whole space
	run   func(t *testing.T, p P) vfResult
}

func vfEnumerate[P any](t *testing.T, e vfEnum[P]) {
	test := t.Name()
	mode := os.Getenv("VF_MODE")
	if mode == "" {
		t.Skip("harness test: run through /verif/check")
	}
	known := vfKnownSigs()
	if mode == "replay" {
		raw, err := os.ReadFile(os.Getenv("VF_REPLAY"))
		if err != nil {
			t.Fatalf("replay file: %v", err)
		}
		var ff vfFailFile
		planJSON := raw
		if json.Unmarshal(raw, &ff) == nil && len(ff.Plan) > 0 {
			planJSON = ff.Plan
		}
		var p P
		if err := json.Unmarshal(planJSON, &p); err != nil {
			t.Fatalf("replay plan does not decode: %v", err)
		}
		res := e.run(t, p)
		out := map[string]any{"runs": 1, "failed": 0, "sigs": []string{}, "message": ""}
		if res.Violation != "" {
			out["failed"], out["sigs"], out["message"] = 1, []string{res.Sig}, res.Violation
		}
		b, _ := json.Marshal(out)
		fmt.Printf("VF-REPLAY-RESULT %s\n", b)
		return
	}
	stats := newStats(e.id, test)
	stats.Extra["exhaustive"] = true
	defer stats.write()
	failed := false
	e.cases(func(p P) bool {
		planJSON, _ := json.Marshal(p)
		res := e.run(t, p)
		stats.record(planJSON, res)
		if res.Violation != "" {
			if known[res.Sig] {
				stats.KnownHits[res.Sig]++
				return true
			}
			vfWriteFail(os.Getenv("VF_FAIL"), e.id, test, planJSON, res)
			stats.Violations = append(stats.Violations, res.Sig)
			fmt.Printf("VF-VIOLATION property=%s sig=%s %s\n", e.id, res.Sig, res.Violation)
			failed = true
			return false
		}
		return true
	})
	if failed {
		t.Fatalf("violation (see VF-VIOLATION line)")
	}
	fmt.Printf("OK, passed %s tests (exhaustive enumeration)\n", strconv.Itoa(stats.Evaluations))
}
