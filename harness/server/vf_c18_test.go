//go:build verif && go1.25

package server

// C18 — concurrent commands, probes and traffic never corrupt the proxy: no data race (run under
// -race), no panic, no deadlock. No gates here: they would add happens-before edges.

import (
	"context"
	"crypto/tls"
	"fmt"
	"net/http"
	"strings"
	"sync"
	"testing"
	"testing/synctest"
	"time"

	"pgregory.net/rapid"
)

type c18Op struct {
	Op     string `json:"op"`
	Svc    string `json:"svc,omitempty"`
	Target int    `json:"target,omitempty"`
	Kind   string `json:"kind,omitempty"`
	Pct    int    `json:"pct,omitempty"`
}

type c18Plan struct {
	Workers [][]c18Op `json:"workers"`
	Restore bool      `json:"restore"` // the router under test was restored from a state file written by a first history
}

var tlsHello = tls.ClientHelloInfo{ServerName: "s0.test"}

var c18Svcs = []string{"s0", "s1", "s2"}

func c18GenOp(t *rapid.T) c18Op {
	op := c18Op{Svc: rapid.SampledFrom(c18Svcs).Draw(t, "svc")}
	op.Op = rapid.SampledFrom([]string{"deploy", "deploy", "rollout-deploy", "rollout-set", "rollout-stop", "pause", "stop", "resume", "remove", "list",
		"request", "request", "request", "request", "flap", "evict", "wait", "getcert", "deploy-bad", "rollout-deploy-bad"}).Draw(t, "op")
	op.Target = rapid.IntRange(0, 3).Draw(t, "target")
	switch op.Op {
	case "request":
		op.Kind = rapid.SampledFrom([]string{"plain", "cookie", "health", "slow", "upgrade", "post"}).Draw(t, "kind")
	case "rollout-set", "flap":
		op.Pct = rapid.IntRange(0, 100).Draw(t, "pct")
	case "deploy":
		op.Pct = rapid.IntRange(0, 15).Draw(t, "options") // bit set of target options, see c18TargetOptions
	}
	return op
}

// c18TargetOptions: bit 0 header logging (spelled non-canonically), bit 1 request and response buffering,
// bit 2 forwarding headers, bit 3 a short target timeout.
func c18TargetOptions(base TargetOptions, bits int) TargetOptions {
	to := base
	if bits&1 != 0 {
		to.LogRequestHeaders = []string{"x-custom-in", "user-agent"}
		to.LogResponseHeaders = []string{"x-vf-target", "content-type"}
	}
	if bits&2 != 0 {
		to.BufferRequests, to.BufferResponses = true, true
		to.MaxMemoryBufferSize = 1024
	}
	if bits&4 != 0 {
		to.ForwardHeaders = true
	}
	if bits&8 != 0 {
		to.ResponseTimeout = 200 * time.Millisecond
	}
	return to
}

func c18Gen(t *rapid.T) c18Plan {
	p := c18Plan{}
	nw := rapid.IntRange(3, 10).Draw(t, "nworkers")
	for i := 0; i < nw; i++ {
		n := rapid.IntRange(3, 12).Draw(t, "nops")
		var ops []c18Op
		for j := 0; j < n; j++ {
			ops = append(ops, c18GenOp(t))
		}
		p.Workers = append(p.Workers, ops)
	}
	p.Restore = rapid.IntRange(0, 3).Draw(t, "restore") == 0
	return p
}

func c18Run(t *testing.T, p c18Plan) (res vfResult) {
	vfBubble(t, func(w *vfWorld) {
		vfSetupWorldTargets(w)
		r := w.newRouter("r")
		to := vfFastTargetOptions()
		to.HealthCheckConfig.Interval = 100 * time.Millisecond
		hosts := map[string]string{"s0": "s0.test", "s1": "s1.test", "s2": "s1.test"}
		bad := []string{"bad0:80", "bad1:80", "bad2:80"}
		for _, n := range bad {
			w.target(n).setProbeScript(nil, vfProbeStep{Kind: "status", Status: 500})
		}
		deployOpt := func(rt *Router, svc string, target, bits int) error { return nil }
		deploy := func(rt *Router, svc string, target int) error { return deployOpt(rt, svc, target, 0) }
		deployOpt = func(rt *Router, svc string, target, bits int) error {
			so := ServiceOptions{TLSRedirect: true}
			if hosts[svc] != "" {
				so.Hosts = []string{hosts[svc]}
			}
			if svc == "s1" {
				so.PathPrefixes = []string{"/", "/api"}
			}
			if svc == "s2" { // a sub-path service: its TLS settings follow the root service of its host
				so.PathPrefixes = []string{"/sub"}
			}
			so.Normalize()
			targets := []string{vfActivePool[target%len(vfActivePool)]}
			if target%2 == 1 {
				targets = append(targets, vfActivePool[(target+1)%len(vfActivePool)])
			}
			if bits < 0 {
				// several targets that never become healthy: they all give up at the deploy timeout, at once
				return vfDeploy(rt, svc, bad[:2+target%2], so, to, 150*time.Millisecond, 100*time.Millisecond)
			}
			return vfDeploy(rt, svc, targets, so, c18TargetOptions(to, bits), 2*time.Second, 300*time.Millisecond)
		}
		// a reachable starting state
		deploy(r, "s0", 0)
		deploy(r, "s1", 1)
		vfRolloutDeploy(r, "s0", []string{vfRolloutPool[0]}, 2*time.Second, 300*time.Millisecond)
		vfRolloutSet(r, "s0", 50, []string{"vip"})
		if p.Restore {
			vfPause(r, "s1", 100*time.Millisecond, 500*time.Millisecond)
			nr := vfNewRouter(vfPathOf(r))
			if err := nr.RestoreLastSavedState(); err != nil {
				res.failf("restore-failed", "%v", err)
				return
			}
			vfRemove(r, "s0")
			vfRemove(r, "s1")
			w.adopt(nr)
			r = nr
			res.label("restored-router")
		}
		synctest.Wait()
		front := w.front(r, "front:80")
		h := front.srv.Handler // the whole middleware chain (access logging reads the per-target header lists)
		var mu sync.Mutex
		var panics []string
		var wg sync.WaitGroup
		start := make(chan struct{})
		touched := map[string]int{}
		for wi, ops := range p.Workers {
			wg.Add(1)
			go func() {
				defer wg.Done()
				<-start
				for oi, op := range ops {
					func() {
						defer func() {
							if rec := recover(); rec != nil && rec != http.ErrAbortHandler {
								mu.Lock()
								panics = append(panics, fmt.Sprintf("worker %d op %d %+v: %v", wi, oi, op, rec))
								mu.Unlock()
							}
						}()
						mu.Lock()
						touched[op.Svc]++
						mu.Unlock()
						switch op.Op {
						case "deploy":
							deployOpt(r, op.Svc, op.Target, op.Pct)
						case "deploy-bad":
							deployOpt(r, op.Svc, op.Target, -1)
						case "rollout-deploy-bad":
							vfRolloutDeploy(r, op.Svc, bad[:2+op.Target%2], 150*time.Millisecond, 100*time.Millisecond)
						case "rollout-deploy":
							vfRolloutDeploy(r, op.Svc, []string{vfRolloutPool[op.Target%len(vfRolloutPool)]}, 2*time.Second, 300*time.Millisecond)
						case "rollout-set":
							vfRolloutSet(r, op.Svc, op.Pct, []string{"vip"})
						case "rollout-stop":
							vfRolloutStop(r, op.Svc)
						case "pause":
							vfPause(r, op.Svc, 200*time.Millisecond, 300*time.Millisecond)
						case "stop":
							vfStop(r, op.Svc, 200*time.Millisecond, "msg")
						case "resume":
							vfResume(r, op.Svc)
						case "remove":
							vfRemove(r, op.Svc)
						case "list":
							vfList(r)
						case "getcert":
							r.GetCertificate(&tlsHello)
						case "flap":
							tg := w.target(vfActivePool[op.Target%len(vfActivePool)])
							if op.Pct%2 == 0 {
								tg.setProbeScript([]vfProbeStep{{Kind: "status", Status: 500}, {Kind: "refuse"}}, vfProbeStep{Kind: "ok"})
							} else {
								// the verdict (500) is in, the probe is still busy with the body when whatever comes next happens
								tg.setProbeScript([]vfProbeStep{{Kind: "status-stall", Status: 500}, {Kind: "status-stall", Status: 500}}, vfProbeStep{Kind: "ok"})
							}
						case "evict":
							// a target fails long enough to leave the rotation of whatever load balancers hold it, and 1-3 requests
							// per service meet the shrunken (then the regrown) rotation
							tg := w.target(vfActivePool[op.Target%len(vfActivePool)])
							tg.setProbeScript([]vfProbeStep{{Kind: "status", Status: 500}, {Kind: "status", Status: 500}, {Kind: "status", Status: 500}}, vfProbeStep{Kind: "ok"})
							for round := 0; round < 2; round++ {
								time.Sleep(250 * time.Millisecond)
								for _, host := range []string{"s0.test", "s1.test"} {
									for k := 0; k < 1+(op.Target+round)%3; k++ {
										rp := w.do(h, vfNewRequest("GET", host, "/x", &vfCtl{}, nil))
										if rp.Panicked != "" && rp.Panicked != "abort" {
											mu.Lock()
											panics = append(panics, fmt.Sprintf("worker %d op %d %+v: request after an eviction panicked: %s", wi, oi, op, rp.Panicked))
											mu.Unlock()
										}
									}
								}
							}
						case "wait":
							time.Sleep(time.Duration(50+op.Target*100) * time.Millisecond)
						case "request":
							host := hosts[op.Svc]
							if host == "" {
								host = "any.test"
							}
							switch op.Kind {
							case "upgrade":
								conn, err := w.net.DialFrom(context.Background(), c13ClientIP, "front:80")
								if err != nil {
									return
								}
								ctl := vfCtl{Upgrade: true}
								fmt.Fprintf(conn, "GET /ws HTTP/1.1\r\nHost: %s\r\nConnection: Upgrade\r\nUpgrade: vf-echo\r\nX-Vf: %s\r\n\r\n", host, ctl.header())
								conn.SetReadDeadline(time.Now().Add(150 * time.Millisecond))
								buf := make([]byte, 256)
								conn.Read(buf)
								conn.Write([]byte("x"))
								conn.Read(buf)
								conn.Close()
							default:
								ctl := &vfCtl{}
								path, method := "/x", "GET"
								if op.Svc == "s2" {
									path = "/sub/x"
								}
								var body []byte
								switch op.Kind {
								case "health":
									path = DefaultHealthCheckPath
								case "slow":
									ctl.DurMs = 250
								case "post":
									method, body = "POST", []byte(strings.Repeat("b", 2000))
								}
								req := vfNewRequest(method, host, path, ctl, body)
								if op.Kind == "cookie" {
									req.Header.Set("Cookie", RolloutCookieName+"=vip")
								}
								req.Header.Set("X-Custom-In", "v")
								rp := w.do(h, req)
								if rp.Panicked != "" && rp.Panicked != "abort" {
									mu.Lock()
									panics = append(panics, fmt.Sprintf("worker %d op %d %+v: request panicked: %s", wi, oi, op, rp.Panicked))
									mu.Unlock()
								}
							}
						}
					}()
				}
			}()
		}
		close(start)
		wg.Wait()
		time.Sleep(time.Second)
		synctest.Wait()
		for _, l := range w.logsCopy() {
			if strings.Contains(l.Msg, "panic") {
				panics = append(panics, "logged: "+l.Msg)
			}
		}
		if len(panics) > 0 {
			res.failf("panic", "%d panic(s): %s", len(panics), strings.Join(panics, "; "))
			return
		}
		// still alive and consistent: list works, a deploy still works
		vfList(r)
		if err := deploy(r, "s2", 0); err != nil && vfErrClass(err) != "host-in-use" && vfErrClass(err) != "unhealthy" { // (a flapped target may still be failing)
			res.failf("dead-after-storm", "a deploy after the concurrent phase failed: %v", err)
			return
		}
		shared := 0
		for _, n := range touched {
			if n >= 2 {
				shared++
			}
		}
		res.NonTrivial = shared > 0
		res.label(fmt.Sprintf("workers:%d", len(p.Workers)))
	})
	return res
}

func TestVF_C18(t *testing.T) {
	vfCheck(t, vfProp[c18Plan]{id: "C18", gen: c18Gen, run: c18Run, journal: true})
}
