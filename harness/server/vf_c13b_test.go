//go:build verif && go1.25

package server

// C13 (concurrent responses) — several large responses from one target are relayed at the same time: every client
// receives exactly its own body (the copy buffers of concurrent requests must not be shared).

import (
	"bytes"
	"fmt"
	"sync"
	"testing"
	"testing/synctest"
	"time"

	"pgregory.net/rapid"
)

type c13bPlan struct {
	Clients int  `json:"clients"`
	Size    int  `json:"size"`
	Parts   int  `json:"parts"`
	Rounds  int  `json:"rounds"`
	BufResp bool `json:"buf_resp"`
}

func c13bGen(t *rapid.T) c13bPlan {
	return c13bPlan{Clients: rapid.IntRange(2, 8).Draw(t, "clients"), Size: rapid.SampledFrom([]int{5000, 40000, 100000, 300000}).Draw(t, "size"),
		Parts: rapid.SampledFrom([]int{1, 4, 16}).Draw(t, "parts"), Rounds: rapid.IntRange(1, 4).Draw(t, "rounds"), BufResp: rapid.IntRange(0, 3).Draw(t, "buf-resp") == 0}
}

func c13bRun(t *testing.T, p c13bPlan) (res vfResult) {
	vfBubble(t, func(w *vfWorld) {
		w.target("ta0:80")
		r := w.newRouter("r")
		to := vfFastTargetOptions()
		to.BufferResponses, to.MaxMemoryBufferSize = p.BufResp, 1000
		opts := ServiceOptions{TLSRedirect: true}
		opts.Normalize()
		if err := vfDeploy(r, "svc", []string{"ta0:80"}, opts, to, 5*time.Second, time.Second); err != nil {
			res.failf("setup-failed", "deploy: %v", err)
			return
		}
		synctest.Wait()
		f := w.front(r, "front:80")
		fills := "ABCDEFGH"
		for round := 0; round < p.Rounds; round++ {
			var wg sync.WaitGroup
			var mu sync.Mutex
			for c := 0; c < p.Clients; c++ {
				wg.Add(1)
				go func() {
					defer wg.Done()
					ctl := vfCtl{ID: fmt.Sprintf("c%d", c), Size: p.Size + c, Fill: fills[c : c+1], Parts: p.Parts}
					raw := fmt.Sprintf("GET /big%d HTTP/1.1\r\nHost: h.test\r\nX-Vf: %s\r\n\r\n", c, ctl.header())
					rp := f.rawExchange(c13ClientIP, [][]byte{[]byte(raw)}, nil, "GET", 0)
					want := bytes.Repeat([]byte(fills[c:c+1]), p.Size+c)
					if !rp.complete() || rp.Resp.StatusCode != 200 || !bytes.Equal(rp.Body, want) {
						mu.Lock()
						foreign := 0
						for _, b := range rp.Body {
							if b != fills[c] {
								foreign++
							}
						}
						res.failf("concurrent-response-corrupted", "%d clients at once, client %d asked for %d bytes of %q: got status %v, %d bytes (err %v/%v), %d of them not its own",
							p.Clients, c, p.Size+c, fills[c:c+1], c13Status(rp), len(rp.Body), rp.HeadErr, rp.BodyErr, foreign)
						mu.Unlock()
					}
				}()
			}
			wg.Wait()
			if res.Violation != "" {
				return
			}
		}
		synctest.Wait() // the clients have their bodies; the handlers' deferred clean-up may still be running
		if files := w.spillFiles(); len(files) != 0 {
			res.failf("spill-left", "spill files remain: %v", files)
			return
		}
		res.NonTrivial = p.Size > 32768
		res.label(fmt.Sprintf("clients:%d", p.Clients))
	})
	return res
}

func TestVF_C13_Concurrent(t *testing.T) {
	vfCheck(t, vfProp[c13bPlan]{id: "C13", gen: c13bGen, run: c13bRun})
}
