//go:build verif && go1.25

package server

// C11 — a restart changes nothing observable: router B restored from A's state file behaves like A
// now and under every continuation of the history.

import (
	"runtime"
	"bytes"
	"encoding/json"
	"fmt"
	"os"
	"reflect"
	"sort"
	"strings"
	"testing"
	"testing/synctest"
	"time"

	"pgregory.net/rapid"
)

type c11Plan struct {
	H1 []vfCmd `json:"h1"`
	H2 []vfCmd `json:"h2"`
	// OverlapLast: the last command of H1 is issued while the one before it sits between listing the services for
	// its snapshot and writing it (only if nobody holds the snapshot lock at that point: otherwise the two simply
	// run one after the other) - the file written last must still be the current one
	OverlapLast bool `json:"overlap_last,omitempty"`
}

func c11Gen(t *rapid.T) c11Plan {
	p := c11Plan{}
	m := newVFModel()
	cfg := vfGenCfg{Options: true, TLS: true, Pause: true}
	n1 := rapid.IntRange(1, 12).Draw(t, "n1")
	for i := 0; i < n1; i++ {
		p.H1 = append(p.H1, vfGenOKCmd(t, m, cfg))
	}
	p.OverlapLast = rapid.IntRange(0, 3).Draw(t, "overlap-last") == 0
	n2 := rapid.IntRange(0, 8).Draw(t, "n2")
	for i := 0; i < n2; i++ {
		if rapid.IntRange(0, 3).Draw(t, "fail?") == 0 {
			p.H2 = append(p.H2, vfGenFailCmd(t, m))
		} else {
			p.H2 = append(p.H2, vfGenOKCmd(t, m, cfg))
		}
	}
	return p
}

// c11Internal renders every service as it would be saved now (the in-package view: what the original keeps in
// memory and what the restored proxy rebuilt must describe the same configuration). It goes through
// Service.MarshalJSON rather than through field names, so that it survives refactorings of the in-memory layout.
// The pause timeout of a service that is not paused is masked: it is the leftover of an earlier pause.
func c11Internal(r *Router) map[string]string {
	out := map[string]string{}
	for name, s := range r.services.All() {
		b, err := json.Marshal(s)
		if err != nil {
			out["internal/"+name] = "marshal error: " + err.Error()
			continue
		}
		var generic map[string]any
		if json.Unmarshal(b, &generic) == nil {
			if pc, ok := generic["pause_controller"].(map[string]any); ok {
				if st, _ := pc["state"].(float64); int(st) != int(PauseStatePaused) {
					delete(pc, "fail_after")
				}
			}
			b, _ = json.Marshal(generic)
		}
		out["internal/"+name] = string(b)
	}
	return out
}

// c11Obs is one request of the behaviour suite with what came back and what the proxy logged about it.
type c11Obs struct {
	Key  string // <service>/<kind>[-<n>]
	Svc  string
	Kind string // get abort post resp slow
	N    int
	Resp *vfResp
	Log  []map[string]string
	TLS  bool
	Path string // the path asked for (without the query)
}

// c11Observe exercises the option-dependent behaviour of every running service.
// The requests enter through the server's own handler chain (error pages, logging, request id) as built by the code;
// tag tells the records of two proxies observed at the same time apart.
func c11Observe(w *vfWorld, r *Router, m *vfModel, tag string) []*c11Obs {
	type job struct {
		obs  *c11Obs
		pend *vfPending
		seq  int
	}
	var jobs []job
	logged := NewServer(&Config{HttpPort: 80, HttpsPort: 443}, r).buildHandler()
	mark := len(w.logsCopy())
	seq := 0
	for _, name := range vfSortedKeys(m.Svcs) {
		s := m.Svcs[name]
		if s.State != "running" {
			continue
		}
		host := s.Spec.normHosts()[0]
		if strings.HasPrefix(host, "*.") {
			host = "q." + host[2:]
		}
		tlsOn, _ := m.effTLS(s)
		prefix := s.Spec.normPrefixes()[len(s.Spec.normPrefixes())-1]
		bare := strings.TrimSuffix(prefix, "/") + "/deep/er"
		path := bare + "?x=1;y"
		add := func(kind string, n int, method string, ctl *vfCtl, body []byte) {
			seq++
			req := vfNewRequest(method, host, fmt.Sprintf("%s&job=%s%d", path, tag, seq), ctl, body)
			req.Header.Set("X-Custom", "custom-value")
			req.Header.Set("Accept", "text/vf")
			req.Header.Set("User-Agent", "vf-agent")
			if tlsOn {
				rq := vfReqSpec{TLS: true}
				req.TLS = rq.build().TLS
			}
			req.Header.Set("X-Forwarded-For", "203.0.113.9")
			req.Header.Set("X-Forwarded-Proto", "gopher")
			key := name + "/" + kind
			if kind != "get" && kind != "abort" {
				key = fmt.Sprintf("%s-%d", key, n)
			}
			jobs = append(jobs, job{&c11Obs{Key: key, Svc: name, Kind: kind, N: n, TLS: tlsOn, Path: bare}, w.goDo(logged, req), seq})
		}
		add("get", 0, "GET", &vfCtl{}, nil)
		add("abort", 0, "GET", &vfCtl{Abort: true}, nil)
		for _, n := range []int{9, 10, 11, 100, 101, 5000, 5001} {
			add("post", n, "POST", &vfCtl{}, bytes.Repeat([]byte("b"), n))
			add("resp", n, "GET", &vfCtl{Size: n}, nil)
		}
		for _, d := range []int{499, 501, 1999, 2001, 9999, 10001, 29999, 30001} {
			add("slow", d, "GET", &vfCtl{DurMs: d}, nil)
		}
	}
	var out []*c11Obs
	for _, j := range jobs {
		<-j.pend.done
		j.obs.Resp = j.pend.resp
		out = append(out, j.obs)
	}
	// (the logging middleware writes its record before the handler returns to the caller)
	logs := w.logsCopy()[mark:]
	for _, j := range jobs {
		for _, l := range logs {
			if l.Msg != "Request" || !strings.HasSuffix(fmt.Sprint(l.Attrs["query"]), fmt.Sprintf("&job=%s%d", tag, j.seq)) {
				continue
			}
			rec := map[string]string{}
			for k, v := range l.Attrs {
				rec[k] = fmt.Sprint(v)
			}
			rec["query"] = strings.TrimSuffix(rec["query"], fmt.Sprintf("%s%d", tag, j.seq))
			rec["request_id"] = fmt.Sprint(rec["request_id"] != "")
			j.obs.Log = append(j.obs.Log, rec)
		}
	}
	return out
}

// c11Behaviour renders the observations for comparison between two proxies (rotation position is free: the
// target is replaced by the slot it fills in its service).
func c11Behaviour(w *vfWorld, r *Router, m *vfModel, tag string) map[string]string {
	out := map[string]string{}
	for _, o := range c11Observe(w, r, m, tag) {
		rp := o.Resp
		v := fmt.Sprintf("status=%d took=%v", rp.Status, rp.End-rp.Start)
		if rp.Status == 200 && rp.Target != "" {
			v += " slot=" + c11SlotOf(m, o.Svc, rp.Target)
			if o.Kind == "get" {
				body := string(rp.Body)
				uri := c11Field(body, "uri")
				for _, sep := range []string{"&job=", "\\u0026job="} {
					if i := strings.Index(uri, sep); i >= 0 {
						uri = uri[:i]
					}
				}
				v += " uri=" + uri + " xff=" + c11Field(body, "X-Forwarded-For") + " xfp=" + c11Field(body, "X-Forwarded-Proto")
			}
		}
		if rp.Status != 200 {
			v += " body=" + c06BodyDigest(rp)
		}
		out["behaviour/"+o.Key] = v
		out["log/"+o.Key] = c11RenderLog(o.Log, func(target string) string { return c11SlotOf(m, o.Svc, target) })
	}
	return out
}

func c11RenderLog(recs []map[string]string, slot func(string) string) string {
	var out []string
	for _, rec := range recs {
		var kv []string
		for _, k := range vfSortedKeys(rec) {
			v := rec[k]
			if (k == "target" || k == "resp_x_vf_target") && v != "" {
				v = slot(v)
			}
			kv = append(kv, k+"="+v)
		}
		out = append(out, strings.Join(kv, " "))
	}
	return fmt.Sprintf("%d record(s): %s", len(out), strings.Join(out, " || "))
}

func c11SlotOf(m *vfModel, svc, target string) string {
	s := m.Svcs[svc]
	switch {
	case s == nil:
		return "?" + target
	case vfContains(s.Active, target) && vfContains(s.Rollout, target):
		return svc + ":either"
	case vfContains(s.Active, target):
		return svc + ":active"
	case vfContains(s.Rollout, target):
		return svc + ":rollout"
	}
	return svc + ":FOREIGN:" + target
}

func c11Slot(m *vfModel, target string) string {
	for _, n := range vfSortedKeys(m.Svcs) {
		s := m.Svcs[n]
		if vfContains(s.Active, target) {
			return n + ":active"
		}
		if vfContains(s.Rollout, target) {
			return n + ":rollout"
		}
	}
	return "FOREIGN:" + target
}

func c11Field(body, key string) string {
	i := strings.Index(body, "\""+key+"\":")
	if i < 0 {
		return "<absent>"
	}
	rest := body[i+len(key)+3:]
	end := strings.IndexAny(rest, "]}")
	if rest[0] == '"' {
		end = strings.Index(rest[1:], "\"") + 2
	} else if rest[0] == '[' {
		end = strings.Index(rest, "]") + 1
	}
	if end <= 0 || end > len(rest) {
		end = min(len(rest), 60)
	}
	return rest[:end]
}

func c11Compare(w *vfWorld, a, b *Router, m *vfModel, res *vfResult, ctx string, deep bool) bool {
	sa := c06Snapshot(w, a, m, vfPathOf(a))
	sb := c06Snapshot(w, b, m, vfPathOf(b))
	for k, v := range c11Internal(a) {
		sa[k] = v
	}
	for k, v := range c11Internal(b) {
		sb[k] = v
	}
	if deep {
		// run both behaviour suites concurrently so that both see the same virtual instants
		var ba, bb map[string]string
		done := make(chan struct{}, 2)
		go func() { ba = c11Behaviour(w, a, m, "a"); done <- struct{}{} }()
		go func() { bb = c11Behaviour(w, b, m, "b"); done <- struct{}{} }()
		<-done
		<-done
		for k, v := range ba {
			sa[k] = v
		}
		for k, v := range bb {
			sb[k] = v
		}
	}
	if d := vfDiffMaps(sa, sb); d != "" {
		sig := "restart-diff"
		// the listed finding: rollout targets keep the target-level options they were created with, a restart
		// re-creates them with the service's current ones - visible only on the rollout side of those services
		if stale := m.staleRolloutOptions(); len(stale) > 0 {
			only := true
			for k := range sa {
				if sa[k] == sb[k] {
					continue
				}
				ok := false
				for _, n := range stale {
					if strings.HasPrefix(k, "cookie/"+n+"/") {
						ok = true
					}
				}
				only = only && ok
			}
			if only {
				sig = "rollout-targets-keep-old-options"
			}
		}
		res.failf(sig, "%s: original (want) and restored (got) proxies differ:\n%s", ctx, d)
		return false
	}
	return true
}

func c11Run(t *testing.T, p c11Plan) (res vfResult) {
	vfBubble(t, func(w *vfWorld) {
		vfSetupWorldTargets(w)
		a := w.newRouter("a")
		m := newVFModel()
		for i, c := range p.H1 {
			if p.OverlapLast && i == len(p.H1)-2 {
				c2 := p.H1[i+1]
				want, want2 := m.apply(c), m.apply(c2)
				sc := newVFSched(w, []string{"snapshot.listed"}, nil)
				var got, got2 vfCmdResult
				sc.spawn("first", func() { got = vfExec(w, a, c) })
				overlapped := false
				var queued chan struct{}
				for guard := 0; guard < 400 && !sc.isFinished("first"); guard++ {
					synctest.Wait()
					if sc.parkedAt("first") != "" {
						if !overlapped && queued == nil && a.snapshotLock.TryLock() {
							// nobody holds the snapshot lock while "first" has its list: the next command may overtake it
							a.snapshotLock.Unlock()
							sc.mu.Lock()
							sc.off = true
							sc.mu.Unlock()
							got2 = vfExec(w, a, c2)
							overlapped = true
						} else if !overlapped && queued == nil {
							// "first" writes under the snapshot lock: the next command is issued meanwhile and has to queue
							// behind it for its own snapshot (it must not go without one)
							sc.mu.Lock()
							sc.off = true
							sc.mu.Unlock()
							queued = make(chan struct{})
							go func() {
								defer close(queued)
								got2 = vfExec(w, a, c2)
							}()
							for k := 0; k < 5000; k++ {
								runtime.Gosched()
							}
						}
						sc.release("first")
						continue
					}
					time.Sleep(10 * time.Millisecond)
				}
				sc.stop()
				vfCurSched.Store(nil)
				synctest.Wait()
				if queued != nil {
					<-queued
					res.label("history-ends-with-a-command-queued-behind-a-snapshot")
				} else if !overlapped {
					got2 = vfExec(w, a, c2)
				} else {
					res.label("history-ends-with-overtaken-snapshot")
				}
				if got.Panicked != "" || !vfClassOK(want, vfErrClass(got.Err)) {
					res.failf("setup-failed", "H1 step %d %s: result %q panic=%q, model accepts %v", i, c, vfErrClass(got.Err), got.Panicked, want)
					return
				}
				if got2.Panicked != "" || !vfClassOK(want2, vfErrClass(got2.Err)) {
					res.failf("setup-failed", "H1 step %d %s: result %q panic=%q, model accepts %v", i+1, c2, vfErrClass(got2.Err), got2.Panicked, want2)
					return
				}
				break
			}
			want := m.apply(c)
			got := vfExec(w, a, c)
			if got.Panicked != "" || !vfClassOK(want, vfErrClass(got.Err)) {
				res.failf("setup-failed", "H1 step %d %s: result %q panic=%q, model accepts %v", i, c, vfErrClass(got.Err), got.Panicked, want)
				return
			}
		}
		synctest.Wait()
		raw, err := os.ReadFile(vfPathOf(a))
		if err != nil {
			res.failf("no-state-file", "state file after H1: %v", err)
			return
		}
		os.WriteFile(w.statePath("b"), raw, 0o644)
		b := vfNewRouter(w.statePath("b"))
		w.adopt(b)
		if err := b.RestoreLastSavedState(); err != nil {
			res.failf("restore-failed", "restore: %v", err)
			return
		}
		synctest.Wait()
		nonDefault, special := false, false
		for _, s := range m.Svcs {
			if !reflect.DeepEqual(s.Opt, vfOpts{}) {
				nonDefault = true
			}
			if s.State != "running" || s.Rollout != nil || len(s.Active) > 1 {
				special = true
			}
			res.label("restart-with:" + s.State)
		}
		if !c11Compare(w, a, b, m, &res, "right after the restart", true) {
			return
		}
		// held requests: one per paused service on both routers, outcome compared at the end
		type held struct {
			name   string
			pa, pb *vfPending
		}
		var helds []held
		for _, name := range vfSortedKeys(m.Svcs) {
			s := m.Svcs[name]
			if s.State != "paused" {
				continue
			}
			tlsOn, _ := m.effTLS(s)
			host := s.Spec.normHosts()[0]
			if strings.HasPrefix(host, "*.") {
				host = "q." + host[2:]
			}
			rq := vfReqSpec{Host: host, Path: s.Spec.normPrefixes()[0], TLS: tlsOn}
			helds = append(helds, held{name, w.goDo(a, rq.build()), w.goDo(b, rq.build())})
		}
		synctest.Wait() // the held requests are parked at the pause gate before the continuation starts
		snapshots := []*vfModel{m.clone()} // the configurations in force while the held requests wait
		// the restored proxy built its rollout targets with the service options of the restart; until the next rollout
		// deploy they keep those, whatever redeploys follow (the listed finding, in its restored form)
		restoredRolloutOpt := map[string]vfOpts{}
		for name, s := range m.Svcs {
			if s.Rollout != nil {
				restoredRolloutOpt[name] = s.Opt
			}
		}
		for i, c := range p.H2 {
			ctx := fmt.Sprintf("H2 step %d %s", i, c)
			want := m.apply(c)
			// issue on both at the same virtual instant
			var ra, rb vfCmdResult
			pa := w.goCmd(func() error { ra = vfExec(w, a, c); return nil })
			pb := w.goCmd(func() error { rb = vfExec(w, b, c); return nil })
			<-pa.done
			<-pb.done
			if ra.Panicked != "" || rb.Panicked != "" {
				res.failf("panic", "%s: original panic=%q restored panic=%q", ctx, ra.Panicked, rb.Panicked)
				return
			}
			if vfErrClass(ra.Err) != vfErrClass(rb.Err) {
				res.failf("result-diff", "%s: original returned %q, restored returned %q", ctx, vfErrClass(ra.Err), vfErrClass(rb.Err))
				return
			}
			if !vfClassOK(want, vfErrClass(ra.Err)) {
				res.failf("wrong-result", "%s: result %q, model accepts %v", ctx, vfErrClass(ra.Err), want)
				return
			}
			if ra.End-ra.Start != rb.End-rb.Start {
				res.failf("duration-diff", "%s: original took %v, restored took %v", ctx, ra.End-ra.Start, rb.End-rb.Start)
				return
			}
			if (c.Op == "rollout-deploy" || c.Op == "remove") && ra.Err == nil {
				delete(restoredRolloutOpt, c.Svc)
			}
			synctest.Wait()
			snapshots = append(snapshots, m.clone())
			if !c11Compare(w, a, b, m, &res, "after "+ctx, i == len(p.H2)-1) {
				return
			}
		}
		// let every held request end
		time.Sleep(31 * time.Second)
		synctest.Wait()
		for _, hd := range helds {
			if !hd.pa.finished() || !hd.pb.finished() {
				res.failf("held-forever", "request held by paused service %s never ended (original finished=%v, restored finished=%v)", hd.name, hd.pa.finished(), hd.pb.finished())
				return
			}
			ra, rb := hd.pa.resp, hd.pb.resp
			sa, sb := "", ""
			if ra.Target != "" || rb.Target != "" {
				// rotation position is free: both must have been served by the same slot of the service as it was at
				// some moment of the continuation
				same := false
				for _, snap := range snapshots {
					x, y := c11SlotOf(snap, hd.name, ra.Target), c11SlotOf(snap, hd.name, rb.Target)
					if x == y && !strings.Contains(x, "FOREIGN") && !strings.HasPrefix(x, "?") {
						same, sa, sb = true, x, y
					}
				}
				if !same {
					sa, sb = c11SlotOf(snapshots[0], hd.name, ra.Target), c11SlotOf(snapshots[0], hd.name, rb.Target)
					res.failf("held-diff", "request held by paused service %s: original %v (%s), restored %v (%s): not the same slot at any moment", hd.name, ra, sa, rb, sb)
					return
				}
			}
			if ra.Status != rb.Status || ra.End != rb.End || ra.Panicked != rb.Panicked {
				res.failf("held-diff", "request held by paused service %s: original %v (%s), restored %v (%s)", hd.name, ra, sa, rb, sb)
				return
			}
			res.label("held-request-compared")
		}
		// the probes both proxies send from now on: to the health path of the service's options, at its interval
		// (targets of services whose rollout side still carries earlier options - the listed finding - are left out)
		const window = 12 * time.Second
		synctest.Wait()
		t0 := w.now()
		time.Sleep(window)
		synctest.Wait()
		t1 := w.now()
		type pk struct{ target, path string }
		lo, hi, got := map[pk]int{}, map[pk]int{}, map[pk]int{}
		ambiguous := map[string]bool{}
		for _, n := range m.staleRolloutOptions() {
			for _, tn := range m.Svcs[n].Rollout {
				ambiguous[tn] = true
				res.label("probe-cadence-skipped-for-stale-rollout-target")
			}
		}
		for n, ro := range restoredRolloutOpt {
			if s := m.Svcs[n]; s != nil && s.Rollout != nil && !reflect.DeepEqual(ro.targetLevel(), s.Opt.targetLevel()) {
				for _, tn := range s.Rollout {
					ambiguous[tn] = true
					res.label("probe-cadence-skipped-for-stale-rollout-target")
				}
			}
		}
		for _, name := range vfSortedKeys(m.Svcs) {
			s := m.Svcs[name]
			to := s.Opt.targetOptions()
			per := int(window / to.HealthCheckConfig.Interval)
			for _, tn := range append(append([]string{}, s.Active...), s.Rollout...) {
				k := pk{tn, to.HealthCheckConfig.Path}
				lo[k] += 2 * (per - 1)
				hi[k] += 2 * (per + 1)
			}
		}
		seen := map[string]bool{}
		for _, tn := range vfAllTargets() {
			if seen[tn] {
				continue
			}
			seen[tn] = true
			for _, pr := range w.target(tn).probeLog() {
				if pr.At > t0 && pr.At <= t1 {
					got[pk{tn, pr.Path}]++
				}
			}
		}
		for k := range lo {
			if _, ok := got[k]; !ok {
				got[k] = 0
			}
		}
		for _, k := range vfSortedKeysFunc(got, func(a, b pk) bool { return a.target+a.path < b.target+b.path }) {
			if ambiguous[k.target] {
				continue
			}
			if got[k] < lo[k] || got[k] > hi[k] {
				var ats []string
				for _, pr := range w.target(k.target).probeLog() {
					if pr.At > t0 && pr.At <= t0+2*time.Second {
						ats = append(ats, fmt.Sprintf("%v%s", pr.At-t0, pr.Path))
					}
				}
				res.failf("probe-cadence", "in the %v after the continuation, target %s got %d probes of %q from the two proxies; by the options of the services that use it, between %d and %d (first two seconds: %v)", window, k.target, got[k], k.path, lo[k], hi[k], ats)
				return
			}
			if lo[k] > 0 && k.path != DefaultHealthCheckPath {
				res.label("probe-cadence-checked:custom-path")
			}
		}
		res.NonTrivial = nonDefault && special
		if nonDefault {
			res.label("non-default-options")
		}
		if special {
			res.label("paused/stopped/rollout/multi-target")
		}
		var kinds []string
		for _, c := range p.H2 {
			kinds = append(kinds, c.Op)
		}
		sort.Strings(kinds)
		if len(p.H2) > 0 {
			res.label("continuation")
		}
	})
	return res
}

func TestVF_C11(t *testing.T) {
	vfCheck(t, vfProp[c11Plan]{id: "C11", gen: c11Gen, run: c11Run})
}
