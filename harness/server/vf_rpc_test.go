//go:build verif && go1.25

package server

// Operator commands enter the proxy through CommandHandler (the RPC receiver the CLI talks to). The
// harness issues every command through it, with the argument structs the CLI fills in, so the
// plumbing between a command's arguments and the router is part of what every check exercises.

import (
	"sync"
	"time"
)

func vfDeploy(r *Router, svc string, targets []string, so ServiceOptions, to TargetOptions, deployTimeout, drainTimeout time.Duration) error {
	var reply bool
	return NewCommandHandler(r).Deploy(DeployArgs{Service: svc, TargetURLs: targets, DeployTimeout: deployTimeout, DrainTimeout: drainTimeout,
		ServiceOptions: so, TargetOptions: to}, &reply)
}

func vfRolloutDeploy(r *Router, svc string, targets []string, deployTimeout, drainTimeout time.Duration) error {
	var reply bool
	return NewCommandHandler(r).RolloutDeploy(RolloutDeployArgs{Service: svc, TargetURLs: targets, DeployTimeout: deployTimeout, DrainTimeout: drainTimeout}, &reply)
}

func vfPause(r *Router, svc string, drainTimeout, pauseTimeout time.Duration) error {
	var reply bool
	return NewCommandHandler(r).Pause(PauseArgs{Service: svc, DrainTimeout: drainTimeout, PauseTimeout: pauseTimeout}, &reply)
}

func vfStop(r *Router, svc string, drainTimeout time.Duration, message string) error {
	var reply bool
	return NewCommandHandler(r).Stop(StopArgs{Service: svc, DrainTimeout: drainTimeout, Message: message}, &reply)
}

func vfResume(r *Router, svc string) error {
	var reply bool
	return NewCommandHandler(r).Resume(ResumeArgs{Service: svc}, &reply)
}

func vfRemove(r *Router, svc string) error {
	var reply bool
	return NewCommandHandler(r).Remove(RemoveArgs{Service: svc}, &reply)
}

func vfRolloutSet(r *Router, svc string, pct int, allow []string) error {
	var reply bool
	return NewCommandHandler(r).RolloutSet(RolloutSetArgs{Service: svc, Percentage: pct, Allowlist: allow}, &reply)
}

func vfRolloutStop(r *Router, svc string) error {
	var reply bool
	return NewCommandHandler(r).RolloutStop(RolloutStopArgs{Service: svc}, &reply)
}

func vfList(r *Router) ServiceDescriptionMap {
	var reply ListResponse
	NewCommandHandler(r).List(true, &reply)
	return reply.Targets
}

// The harness remembers where each router keeps its state file instead of reading the router's own field.
var vfRouterPaths sync.Map

func vfNewRouter(statePath string) *Router {
	r := NewRouter(statePath)
	vfRouterPaths.Store(r, statePath)
	return r
}

func vfPathOf(r *Router) string {
	p, _ := vfRouterPaths.Load(r)
	s, _ := p.(string)
	return s
}
