//go:build verif && go1.25

package server

// C03 — when deploy, pause or stop returns, the drained targets are quiescent.
// C17 (drain part) — the same scenarios with the command's return instant checked exactly.

import (
	"bufio"
	"context"
	"fmt"
	"net/http"
	"strings"
	"testing"
	"testing/synctest"
	"time"

	"pgregory.net/rapid"
)

type c03Flight struct {
	Kind    string `json:"kind"` // plain | upgrade | sse | upgrade-late (the target's 101 comes DurMs after the request: while the drain is under way)
	DurMs   int    `json:"dur_ms"`
	Rollout bool   `json:"rollout"` // carries the rollout cookie (split is 100%)
	Offer   bool   `json:"offer"`   // offers a protocol upgrade (Upgrade: h2c) that the target ignores
}

type c03Plan struct {
	Cmd      string      `json:"cmd"` // redeploy | rollout-redeploy | pause | stop
	Active   int         `json:"active"`
	Rollout  int         `json:"rollout"`
	DrainMs  int         `json:"drain_ms"`
	CmdAtMs  int         `json:"cmd_at_ms"`
	Flights  []c03Flight `json:"flights"`
	LateAtMs []int       `json:"late_at_ms"` // arrivals, relative to the command start
	ResumeMs int         `json:"resume_ms"`  // pause/stop: resume this long after the command returned; 0 = never
	Stale    string      `json:"stale"`      // "" | entry | after-gate: a request parked there across the command (known-finding shapes)
	RolloutStopped bool  `json:"rollout_stopped"` // `rollout stop` is issued after the flights started: rollout targets stay installed (and busy)
	Sick     []int       `json:"sick,omitempty"`  // targets of the drained set whose probes start failing right after the flights started (they are out of rotation, still busy, when the command runs)
	TargetTimeoutMs int  `json:"target_timeout_ms,omitempty"` // the service's target timeout (bounds the wait for response HEADERS only); 0 = far beyond the scenario. Flights are streams or upgrades then: their headers come at once.
	Meanwhile bool       `json:"meanwhile,omitempty"` // while the command drains, `list` is issued: it answers at once (it does not wait for the other command's drain)
	Prior    []string    `json:"prior,omitempty"` // pause / stop / resume commands issued (idle service) before the scenario: the command under test is not the first of its kind
}

func c03Gen(t *rapid.T) c03Plan {
	p := c03Plan{}
	p.Cmd = rapid.SampledFrom([]string{"redeploy", "rollout-redeploy", "pause", "stop"}).Draw(t, "cmd")
	p.Active = rapid.IntRange(1, 3).Draw(t, "active")
	p.Rollout = rapid.IntRange(0, 2).Draw(t, "rollout")
	if p.Cmd == "rollout-redeploy" && p.Rollout == 0 {
		p.Rollout = 1
	}
	p.DrainMs = rapid.SampledFrom([]int{0, 50, 200, 1000, 5000}).Draw(t, "drain") // 0: whatever is in flight is cut off at once
	p.CmdAtMs = rapid.SampledFrom([]int{0, 10, 100}).Draw(t, "cmd-at")
	sick := rapid.IntRange(0, 4).Draw(t, "sick?") == 0
	if sick {
		p.CmdAtMs = 10100 // after the probe round at +10s has found the sick targets out
	}
	nf := rapid.IntRange(0, 5).Draw(t, "nflights")
	deadline := p.CmdAtMs + p.DrainMs
	if rapid.IntRange(0, 5).Draw(t, "target-timeout?") == 0 {
		p.TargetTimeoutMs = rapid.SampledFrom([]int{5, 20, p.DrainMs / 2}).Draw(t, "target-timeout")
	}
	for i := 0; i < nf; i++ {
		f := c03Flight{Kind: rapid.SampledFrom([]string{"plain", "plain", "plain", "upgrade", "sse"}).Draw(t, "kind")}
		if p.TargetTimeoutMs > 0 && f.Kind == "plain" {
			f.Kind = "sse"
		}
		f.DurMs = rapid.SampledFrom([]int{1, p.CmdAtMs, p.CmdAtMs + 1, deadline / 2, deadline - 1, deadline, deadline + 1, deadline * 3, 60000}).Draw(t, "dur")
		f.DurMs = max(f.DurMs, 1)
		if f.Kind == "upgrade" && p.DrainMs >= 50 && p.TargetTimeoutMs == 0 && rapid.IntRange(0, 2).Draw(t, "late-101") == 0 {
			f.Kind, f.DurMs = "upgrade-late", p.CmdAtMs+p.DrainMs/2
		}
		f.Rollout = p.Rollout > 0 && rapid.IntRange(0, 2).Draw(t, "to-rollout") == 0
		f.Offer = f.Kind == "plain" && rapid.IntRange(0, 3).Draw(t, "offer") == 0
		p.Flights = append(p.Flights, f)
	}
	nl := rapid.IntRange(0, 4).Draw(t, "nlate")
	for i := 0; i < nl; i++ {
		p.LateAtMs = append(p.LateAtMs, rapid.SampledFrom([]int{0, 1, p.DrainMs / 2, p.DrainMs - 1, p.DrainMs, p.DrainMs + 1, p.DrainMs + 500}).Draw(t, "late"))
	}
	if p.Cmd == "pause" || p.Cmd == "stop" {
		p.ResumeMs = rapid.SampledFrom([]int{0, 1, 100, 700}).Draw(t, "resume")
	}
	p.RolloutStopped = p.Rollout > 0 && p.Cmd != "rollout-redeploy" && rapid.IntRange(0, 2).Draw(t, "rollout-stopped") == 0
	if rapid.IntRange(0, 9).Draw(t, "stale") == 0 {
		p.Stale = rapid.SampledFrom([]string{"entry", "after-gate"}).Draw(t, "stale-at")
	}
	if sick {
		n := p.Active
		if p.Cmd == "rollout-redeploy" {
			n = p.Rollout
		}
		for i := 0; i < n; i++ {
			// pause and stop hand the same targets back at resume: one of them stays healthy
			if (p.Cmd == "pause" || p.Cmd == "stop") && i == n-1 {
				break
			}
			if rapid.Bool().Draw(t, "sick") {
				p.Sick = append(p.Sick, i)
			}
		}
	}
	p.Meanwhile = rapid.IntRange(0, 2).Draw(t, "meanwhile") == 0
	if rapid.IntRange(0, 3).Draw(t, "prior?") == 0 {
		p.Prior = rapid.SampledFrom([][]string{{"pause", "resume"}, {"stop", "resume"}, {"pause", "stop", "resume"}, {"pause", "resume", "pause", "resume"}, {"stop", "pause", "resume"}}).Draw(t, "prior")
	}
	return p
}

const c03MaxPause = 2 * time.Second

func c03Run(t *testing.T, p c03Plan) vfResult { return c03RunMode(t, p, "C03") }

func c03RunMode(t *testing.T, p c03Plan, mode string) (res vfResult) {
	vfBubble(t, func(w *vfWorld) {
		w.noteWait(c03MaxPause)
		r := w.newRouter("r")
		opts := ServiceOptions{Hosts: []string{"svc.test"}, TLSRedirect: true}
		opts.Normalize()
		to := vfFastTargetOptions()
		to.HealthCheckConfig.Interval = 10 * time.Second
		w.noteInterval(to.HealthCheckConfig.Interval)
		to.ResponseTimeout = 10 * time.Minute // no target timeout inside the scenario's horizon
		if p.TargetTimeoutMs > 0 {
			to.ResponseTimeout = vfMs(p.TargetTimeoutMs)
			res.label("target-timeout-shorter-than-drain-timeout")
		}
		mk := func(prefix string, n int) []string {
			var out []string
			for i := 0; i < n; i++ {
				name := fmt.Sprintf("%s%d:80", prefix, i)
				w.target(name)
				out = append(out, name)
			}
			return out
		}
		oldA, oldR := mk("olda", p.Active), mk("oldr", p.Rollout)
		newA, newR := mk("newa", p.Active), mk("newr", max(p.Rollout, 1))
		big := 120 * time.Second
		if err := vfDeploy(r, "svc", oldA, opts, to, 5*time.Second, big); err != nil {
			res.failf("setup-failed", "deploy: %v", err)
			return
		}
		if p.Rollout > 0 {
			if err := vfRolloutDeploy(r, "svc", oldR, 5*time.Second, big); err != nil {
				res.failf("setup-failed", "rollout deploy: %v", err)
				return
			}
			if err := vfRolloutSet(r, "svc", 100, nil); err != nil {
				res.failf("setup-failed", "rollout set: %v", err)
				return
			}
		}
		for _, c := range p.Prior {
			var err error
			switch c {
			case "pause":
				err = vfPause(r, "svc", time.Second, c03MaxPause)
			case "stop":
				err = vfStop(r, "svc", time.Second, "earlier stop")
			case "resume":
				err = vfResume(r, "svc")
			}
			if err != nil {
				res.failf("setup-failed", "prior %s: %v", c, err)
				return
			}
		}
		synctest.Wait()
		w.front(r, "front:80")
		var sc *vfSched
		if p.Stale != "" {
			sc = newVFSched(w, []string{"service." + p.Stale}, nil)
		}
		t0 := w.now()
		drain := vfMs(p.DrainMs)
		tc := t0 + vfMs(p.CmdAtMs)
		deadline := tc + drain
		drained := func(rollout bool) bool {
			switch p.Cmd {
			case "redeploy":
				return !rollout
			case "rollout-redeploy":
				return rollout
			}
			return true
		}

		// ---- flights, started at t0
		type flightObs struct {
			pend     *vfPending
			closedAt time.Duration // upgrade: instant the client saw the connection end (-1 open)
			upOK     bool
		}
		obs := make([]*flightObs, len(p.Flights))
		for i, f := range p.Flights {
			o := &flightObs{closedAt: -1}
			obs[i] = o
			ctl := &vfCtl{ID: fmt.Sprintf("f%d", i), DurMs: f.DurMs}
			if f.Kind == "upgrade" || f.Kind == "upgrade-late" {
				ctl.Upgrade = true
				if f.Kind == "upgrade-late" {
					ctl.UpDelayMs = f.DurMs
					res.label("handshake-in-flight-when-draining-begins")
				}
				conn, err := w.net.DialFrom(context.Background(), c13ClientIP, "front:80")
				if err != nil {
					res.failf("harness", "dial: %v", err)
					return
				}
				ck := ""
				if f.Rollout {
					ck = "Cookie: " + RolloutCookieName + "=v\r\n"
				}
				fmt.Fprintf(conn, "GET /ws HTTP/1.1\r\nHost: svc.test\r\nConnection: Upgrade\r\nUpgrade: vf-echo\r\n%sX-Vf: %s\r\n\r\n", ck, ctl.header())
				w.wg.Add(1)
				go func() {
					defer w.wg.Done()
					br := bufio.NewReader(conn)
					resp, err := http.ReadResponse(br, &http.Request{Method: "GET"})
					if err == nil && resp.StatusCode == 101 {
						o.upOK = true
					}
					buf := make([]byte, 64)
					for {
						if _, err := br.Read(buf); err != nil {
							break
						}
					}
					o.closedAt = w.now()
					conn.Close()
				}()
				continue
			}
			if f.Kind == "sse" {
				ctl.SSE = true
			}
			req := vfNewRequest("GET", "svc.test", "/x", ctl, nil)
			if f.Rollout {
				req.Header.Set("Cookie", RolloutCookieName+"=v")
			}
			if f.Offer {
				req.Header.Set("Connection", "Upgrade")
				req.Header.Set("Upgrade", "h2c")
			}
			o.pend = w.goDo(r, req)
		}
		// the stale request: parked at the chosen point before the command
		var stalePend *vfPending
		if sc != nil {
			sc.spawn("stale", func() {
				req := vfNewRequest("GET", "svc.test", "/stale", &vfCtl{ID: "stale"}, nil)
				if p.Cmd == "rollout-redeploy" {
					req.Header.Set("Cookie", RolloutCookieName+"=v")
				}
				stalePend = &vfPending{done: make(chan struct{})}
				stalePend.resp = w.do(r, req)
				close(stalePend.done)
			})
		}
		synctest.Wait()
		if len(p.Sick) > 0 {
			set := oldA
			if p.Cmd == "rollout-redeploy" {
				set = oldR
			}
			for _, i := range p.Sick {
				w.targets[set[i]].setProbeScript(nil, vfProbeStep{Kind: "status", Status: 500})
			}
			res.label("busy-target-out-of-rotation-when-drained")
		}
		if p.RolloutStopped {
			// the split ends, the rollout targets stay installed with whatever they are serving
			if err := vfRolloutStop(r, "svc"); err != nil {
				res.failf("setup-failed", "rollout stop: %v", err)
				return
			}
			res.label("rollout-stopped-before-command")
		}
		if d := tc - w.now(); d > 0 {
			time.Sleep(d)
		}
		synctest.Wait()

		// ---- the command
		var cmd *vfPendingCmd
		switch p.Cmd {
		case "redeploy":
			cmd = w.goCmd(func() error { return vfDeploy(r, "svc", newA, opts, to, 5*time.Second, drain) })
		case "rollout-redeploy":
			cmd = w.goCmd(func() error { return vfRolloutDeploy(r, "svc", newR, 5*time.Second, drain) })
		case "pause":
			cmd = w.goCmd(func() error { return vfPause(r, "svc", drain, c03MaxPause) })
		case "stop":
			cmd = w.goCmd(func() error { return vfStop(r, "svc", drain, "closed for now") })
		}
		if p.Meanwhile {
			synctest.Wait() // the command has begun to drain (or is done)
			if !cmd.finished() {
				// `list` only reads: it is answered without virtual time passing, so a bounded wait in real time decides
				// (a goroutine queued on a mutex the draining command holds would stall the bubble for good)
				listed := make(chan struct{})
				go func() { defer close(listed); vfList(r) }()
				if !vfRealWait(listed, 5*time.Second) {
					// real time only prompts the look: the verdict is that `list` sits queued on one of the proxy's locks
					if _, ev := vfQueuedOnProxyLock(false, "ListActiveServices"); ev != "" {
						res.failf("blocked-behind-drain", "cmd=%s at %v drain-timeout=%v: `list`, issued while the command was draining, is queued on a lock of the proxy (it has to answer without waiting for the other command):\n%s", p.Cmd, tc, drain, ev)
						return
					}
					if !vfRealWait(listed, 60*time.Second) {
						res.Excluded = "`list` did not return within 65 s of real time although it is not queued on a lock (inconclusive)"
						return
					}
				}
				res.label("list-answered-while-draining")
			}
		}
		// late arrivals
		type lateObs struct {
			at     time.Duration
			pend   *vfPending
			cookie bool
		}
		var lates []*lateObs
		lateSorted := append([]int(nil), p.LateAtMs...)
		for i := range lateSorted {
			for j := i + 1; j < len(lateSorted); j++ {
				if lateSorted[j] < lateSorted[i] {
					lateSorted[i], lateSorted[j] = lateSorted[j], lateSorted[i]
				}
			}
		}
		for i, x := range lateSorted {
			synctest.Wait()
			if d := tc + vfMs(x) - w.now(); d > 0 {
				time.Sleep(d)
				synctest.Wait()
			}
			req := vfNewRequest("GET", "svc.test", "/late", &vfCtl{ID: fmt.Sprintf("late%d", i)}, nil)
			ck := p.Rollout > 0 && i%2 == 1 && !p.RolloutStopped
			if ck {
				req.Header.Set("Cookie", RolloutCookieName+"=v")
			}
			lates = append(lates, &lateObs{at: w.now(), pend: w.goDo(r, req), cookie: ck})
		}
		<-cmd.done
		synctest.Wait()
		ret := cmd.res.End
		if cmd.res.Err != nil || cmd.res.Panicked != "" {
			res.failf("command-failed", "%s failed: %v %s", p.Cmd, cmd.res.Err, cmd.res.Panicked)
			return
		}
		desc := fmt.Sprintf("cmd=%s at %v drain-timeout=%v deadline=%v returned=%v", p.Cmd, tc, drain, deadline, ret)

		// ---- oracle 1: at the instant the command returned, nothing is open at the drained targets
		drainedTargets := map[string]bool{}
		if drained(false) {
			for _, n := range oldA {
				drainedTargets[n] = true
			}
		}
		if drained(true) {
			for _, n := range oldR {
				drainedTargets[n] = true
			}
		}
		for n := range drainedTargets {
			for _, rq := range w.targets[n].reqLog() {
				if rq.Arrived <= ret && (rq.Finished < 0 || rq.Finished > ret) {
					res.failf("not-quiescent-at-return", "%s: drained target %s still serves request %s (arrived %v, finished %v) when the command returned", desc, n, rq.ID, rq.Arrived, rq.Finished)
					return
				}
			}
		}
		// expected return instant
		want := tc
		inflight := false
		for _, f := range p.Flights {
			if !drained(f.Rollout) || f.Kind == "upgrade" {
				continue
			}
			if f.Kind == "upgrade-late" {
				// in flight as a handshake when draining begins, an open tunnel from its 101 on: nothing ends it but the deadline
				inflight = true
				want = deadline
				continue
			}
			end := t0 + vfMs(f.DurMs)
			if end > tc {
				inflight = true
				want = max(want, min(end, deadline))
			}
		}
		if mode == "C17" && ret != want {
			res.failf("return-time:"+p.Cmd, "%s: want return at exactly %v (latest natural end of a drained in-flight request, capped by the drain deadline; %v if idle)", desc, want, tc)
			return
		}
		if ret > deadline {
			res.failf("exceeds-drain-timeout", "%s: returned after the drain deadline", desc)
			return
		}

		// release the stale request now that the command has returned
		if sc != nil {
			time.Sleep(10 * time.Millisecond)
			synctest.Wait()
			sc.stop()
			vfCurSched.Store(nil)
		}
		// resume
		resumedAt := time.Duration(-1)
		if p.ResumeMs > 0 {
			time.Sleep(vfMs(p.ResumeMs))
			synctest.Wait()
			resumedAt = w.now()
			if err := vfResume(r, "svc"); err != nil {
				res.failf("command-failed", "resume: %v", err)
				return
			}
		}
		// let everything end (held requests expire after max-pause, 60 s flights are cut or finish)
		time.Sleep(61 * time.Second)
		synctest.Wait()

		// ---- oracle 2: the fate of every flight
		for i, f := range p.Flights {
			o := obs[i]
			end := t0 + vfMs(f.DurMs)
			fd := fmt.Sprintf("%s; flight %d kind=%s natural-end=%v rollout=%v", desc, i, f.Kind, end, f.Rollout)
			if f.Kind == "upgrade-late" {
				if !o.upOK {
					res.failf("late-upgrade-refused", "%s: the handshake was in flight when draining began and the target's 101 came within the drain timeout, yet the client saw no 101", fd)
					return
				}
				if drained(f.Rollout) && (o.closedAt < 0 || o.closedAt > ret) {
					res.failf("upgrade-open-after-return", "%s: the connection upgraded while the drain was under way ended at %v (-1: never), the command returned at %v", fd, o.closedAt, ret)
					return
				}
				continue
			}
			if f.Kind == "upgrade" {
				if !o.upOK {
					res.failf("harness", "%s: upgrade did not go through", fd)
					return
				}
				if drained(f.Rollout) && o.closedAt != tc {
					res.failf("upgrade-not-closed-at-drain-start", "%s: upgraded connection was closed at %v, want exactly when draining began (%v)", fd, o.closedAt, tc)
					return
				}
				continue
			}
			if !o.pend.finished() {
				res.failf("flight-hangs", "%s: never ended", fd)
				return
			}
			rp := o.pend.resp
			complete := rp.Status == 200 && rp.Panicked == "" && (f.Kind != "sse" || strings.Contains(string(rp.Body), "data: second"))
			switch {
			case !drained(f.Rollout) || end < deadline && !(end > tc && false):
				if end <= deadline || !drained(f.Rollout) {
					if end == deadline && drained(f.Rollout) {
						res.label("tie-at-drain-deadline")
						continue
					}
					if !complete || rp.End != end {
						res.failf("inflight-not-completed", "%s: must run to its normal completion at %v, got %v", fd, end, rp)
						return
					}
				}
			case end == deadline:
				res.label("tie-at-drain-deadline")
			default: // still running at the deadline: cut off exactly then
				if rp.End != deadline {
					res.failf("cut-off-instant", "%s: still running at the drain deadline, must be cut off at exactly %v, ended at %v (%v)", fd, deadline, rp.End, rp)
					return
				}
				if f.Kind == "plain" && rp.Status != http.StatusGatewayTimeout {
					res.failf("cut-off-status", "%s: cut off at the deadline with %v, want 504", fd, rp)
					return
				}
				if f.Kind == "sse" && complete {
					res.failf("cut-off-presented-complete", "%s: event stream cut at the deadline was presented as complete: %v", fd, rp)
					return
				}
				res.label("cut-off-at-deadline")
			}
		}
		// ---- oracle 3: late arrivals and later traffic never reach the drained targets
		for _, l := range lates {
			ld := fmt.Sprintf("%s; late arrival at %v cookie=%v", desc, l.at, l.cookie)
			if !l.pend.finished() {
				res.failf("late-hangs", "%s: never ended", ld)
				return
			}
			rp := l.pend.resp
			switch p.Cmd {
			case "redeploy", "rollout-redeploy":
				wantSet := newA
				if p.Cmd == "rollout-redeploy" {
					wantSet = oldA
				}
				if l.cookie {
					wantSet = oldR
					if p.Cmd == "rollout-redeploy" {
						wantSet = newR
					}
				}
				if rp.Status != 200 || !vfContains(wantSet, rp.Target) {
					res.failf("late-arrival-misrouted", "%s: got %v, want 200 from %v", ld, rp, wantSet)
					return
				}
			case "stop":
				if resumedAt >= 0 && l.at >= resumedAt {
					break
				}
				if rp.Status != 503 || rp.End != l.at {
					res.failf("late-arrival-not-503", "%s: service stopped, got %v", ld, rp)
					return
				}
			case "pause":
				switch {
				case resumedAt >= 0 && l.at+c03MaxPause > resumedAt:
					if rp.Status != 200 || rp.End != max(resumedAt, l.at) {
						res.failf("held-not-released", "%s: held request must be forwarded at resume (%v), got %v", ld, resumedAt, rp)
						return
					}
				case resumedAt >= 0 && l.at+c03MaxPause == resumedAt:
				default:
					if rp.Status != 504 || rp.End != l.at+c03MaxPause {
						res.failf("held-not-timed-out", "%s: held request must get 504 at %v, got %v", ld, l.at+c03MaxPause, rp)
						return
					}
				}
			}
		}
		for n := range drainedTargets {
			for _, rq := range w.targets[n].reqLog() {
				lateOK := false
				if (p.Cmd == "pause" || p.Cmd == "stop") && resumedAt >= 0 && rq.Arrived >= resumedAt {
					lateOK = true // after resume the same targets serve again
				}
				if rq.Arrived > tc && !lateOK {
					sig := "sent-to-drained-target"
					if rq.ID == "stale" {
						sig = "stale-request-reaches-drained-target"
						if p.Cmd == "pause" || p.Cmd == "stop" {
							sig = "claim-after-pause-set"
						}
					}
					res.failf(sig, "%s: drained target %s received request %s at %v, after draining began (resume at %v)", desc, n, rq.ID, rq.Arrived, resumedAt)
					return
				}
			}
		}
		res.NonTrivial = inflight || len(lates) > 0
		if inflight {
			res.label("drain-with-requests-in-flight")
		}
		if len(lates) > 0 {
			res.label("late-arrivals")
		}
		if p.Stale != "" {
			res.label("stale-shape:" + p.Stale)
		}
		if len(p.Prior) > 0 {
			res.label("not-the-first-pause-or-stop")
		}
		res.label("cmd:" + p.Cmd)
		if mode == "C17" {
			res.NonTrivial = true
			if ret < deadline {
				res.label("returned-before-drain-timeout")
			} else {
				res.label("returned-at-drain-timeout")
			}
		}
	})
	return res
}

func TestVF_C03(t *testing.T) {
	vfCheck(t, vfProp[c03Plan]{id: "C03", gen: c03Gen, run: c03Run})
}

func TestVF_C17_Drain(t *testing.T) {
	vfCheck(t, vfProp[c03Plan]{id: "C17", stallIsViolation: true, gen: func(t *rapid.T) c03Plan {
		p := c03Gen(t)
		p.Stale = ""
		return p
	}, run: func(t *testing.T, p c03Plan) vfResult { return c03RunMode(t, p, "C17") }})
}
