//go:build verif && go1.25

package server

// Core of the harness: case results, statistics, the rapid search loop, the
// library-free replay loop. One generic entry point (vfCheck) per property.

import (
	"time"
	"runtime"
	"encoding/json"
	"fmt"
	"hash/fnv"
	"os"
	"path/filepath"
	"runtime/debug"
	"sort"
	"strconv"
	"strings"
	"testing"

	"pgregory.net/rapid"
)

// vfResult is what executing one case yields.
type vfResult struct {
	Violation  string   // empty = property held on this case
	Sig        string   // signature of the violation (known-findings matching)
	NonTrivial bool     // case met the property's stated non-trivial rule
	Labels     []string // classes realised by the case (distribution in evidence)
	Excluded   string   // non-empty: case was outside the stated domain (counted, not judged)
}

func (r *vfResult) label(l string) {
	for _, x := range r.Labels {
		if x == l {
			return
		}
	}
	r.Labels = append(r.Labels, l)
}

func (r *vfResult) failf(sig, format string, args ...any) {
	if r.Violation == "" {
		r.Violation = fmt.Sprintf(format, args...)
		r.Sig = sig
	}
}

type vfStats struct {
	Property    string         `json:"property"`
	Test        string         `json:"test"`
	Evaluations int            `json:"evaluations"`
	Hashes      []string       `json:"nontrivial_hashes"`
	Labels      map[string]int `json:"labels"`
	Samples     []any          `json:"samples"`
	KnownHits   map[string]int `json:"known_hits"`
	Excluded    map[string]int `json:"excluded"`
	Violations  []string       `json:"violations"`
	Extra       map[string]any `json:"extra"`

	hashSet map[uint64]struct{}
	sample  map[string]any // first / largest non-trivial
	maxLen  int
}

func newStats(prop, test string) *vfStats {
	return &vfStats{Property: prop, Test: test, Labels: map[string]int{}, KnownHits: map[string]int{}, Excluded: map[string]int{},
		Extra: map[string]any{}, hashSet: map[uint64]struct{}{}, sample: map[string]any{}}
}

func (s *vfStats) record(planJSON []byte, res vfResult) {
	s.Evaluations++
	for _, l := range res.Labels {
		s.Labels[l]++
	}
	if res.Excluded != "" {
		s.Excluded[res.Excluded]++
	}
	if res.NonTrivial {
		h := fnv.New64a()
		h.Write(planJSON)
		k := h.Sum64()
		if _, ok := s.hashSet[k]; !ok {
			s.hashSet[k] = struct{}{}
			var v any
			if len(s.hashSet) == 1 {
				json.Unmarshal(planJSON, &v)
				s.sample["first"] = v
			}
			if len(planJSON) > s.maxLen && len(planJSON) < 20000 {
				s.maxLen = len(planJSON)
				json.Unmarshal(planJSON, &v)
				s.sample["largest"] = v
			}
		}
	}
}

func (s *vfStats) write() {
	path := os.Getenv("VF_OUT")
	if path == "" {
		return
	}
	s.Hashes = s.Hashes[:0]
	for k := range s.hashSet {
		s.Hashes = append(s.Hashes, strconv.FormatUint(k, 16))
	}
	sort.Strings(s.Hashes)
	s.Samples = nil
	for _, k := range []string{"first", "largest"} {
		if v, ok := s.sample[k]; ok {
			s.Samples = append(s.Samples, v)
		}
	}
	b, _ := json.Marshal(s)
	os.WriteFile(path, b, 0o644)
}

type vfFailFile struct {
	Property string          `json:"property"`
	Test     string          `json:"test"`
	Sig      string          `json:"sig"`
	Message  string          `json:"message"`
	Plan     json.RawMessage `json:"plan"`
}

func vfWriteFail(path, prop, test string, planJSON []byte, res vfResult) {
	if path == "" {
		return
	}
	b, _ := json.MarshalIndent(vfFailFile{Property: prop, Test: test, Sig: res.Sig, Message: res.Violation, Plan: planJSON}, "", " ")
	os.WriteFile(path, b, 0o644)
}

func vfKnownSigs() map[string]bool {
	m := map[string]bool{}
	for _, s := range strings.Split(os.Getenv("VF_KNOWN"), ",") {
		if s != "" {
			m[s] = true
		}
	}
	return m
}

// vfJournal keeps the case being executed on disk, so that a crash of the test
// process (fatal error, race abort) still identifies the case.
func vfJournal(prop, test string, planJSON []byte) {
	dir := os.Getenv("VF_SCRATCH")
	if dir == "" {
		return
	}
	b, _ := json.Marshal(vfFailFile{Property: prop, Test: test, Sig: "crash", Message: "process died while executing this case", Plan: planJSON})
	os.WriteFile(filepath.Join(dir, "current.json"), b, 0o644)
}

type vfProp[P any] struct {
	id      string
	gen     func(t *rapid.T) P
	run     func(t *testing.T, p P) vfResult
	journal bool
	// stallIsViolation: this property speaks of commands and requests that must not wait. A case whose bubble has come
	// to a standstill with a goroutine of the proxy queued on one of the proxy's locks (the holder waits for time to
	// pass, and time cannot pass in a bubble while somebody is queued on a mutex) is then reported as a violation
	// instead of being left to the driver's time limit (which reports "inconclusive").
	stallIsViolation bool
	// extra is called once at the end in search mode to add measured numbers to the stats
	extra func(s *vfStats)
}

// vfCheck runs a property in the mode selected by VF_MODE (search: rapid; replay: saved plan).
func vfCheck[P any](t *testing.T, prop vfProp[P]) {
	test := t.Name()
	mode := os.Getenv("VF_MODE")
	if mode == "" {
		t.Skip("harness test: run through /verif/check")
	}
	known := vfKnownSigs()
	failPath := os.Getenv("VF_FAIL")

	safeRun := func(p P) (res vfResult) {
		defer func() {
			if r := recover(); r != nil {
				extra := ""
				if strings.Contains(fmt.Sprint(r), "blocked goroutines remain") {
					// the leaked goroutines are still there: show them
					buf := make([]byte, 1<<20)
					extra = "\nALL GOROUTINES:\n" + string(buf[:runtime.Stack(buf, true)])
				}
				res.failf("harness-or-proxy-panic", "panic while executing case: %v\n%s%s", r, debug.Stack(), extra)
			}
		}()
		return prop.run(t, p)
	}

	if mode == "replay" {
		raw, err := os.ReadFile(os.Getenv("VF_REPLAY"))
		if err != nil {
			t.Fatalf("replay file: %v", err)
		}
		var ff vfFailFile
		planJSON := raw
		if json.Unmarshal(raw, &ff) == nil && len(ff.Plan) > 0 {
			planJSON = ff.Plan
		}
		var p P
		if err := json.Unmarshal(planJSON, &p); err != nil {
			t.Fatalf("replay plan does not decode: %v", err)
		}
		times, _ := strconv.Atoi(os.Getenv("VF_REPLAY_TIMES"))
		if times <= 0 {
			times = 1
		}
		out := struct {
			Runs    int      `json:"runs"`
			Failed  int      `json:"failed"`
			Sigs    []string `json:"sigs"`
			Message string   `json:"message"`
		}{}
		for i := 0; i < times; i++ {
			stop := vfStallWatch(prop.stallIsViolation, func(msg string) {
				out.Runs++
				out.Failed++
				out.Sigs = append(out.Sigs, "stalled-on-proxy-lock")
				out.Message = msg
				b, _ := json.Marshal(out)
				fmt.Printf("VF-REPLAY-RESULT %s\n", b)
				os.Exit(1)
			})
			res := safeRun(p)
			stop()
			out.Runs++
			if res.Violation != "" {
				out.Failed++
				out.Sigs = append(out.Sigs, res.Sig)
				out.Message = res.Violation
			}
		}
		b, _ := json.Marshal(out)
		fmt.Printf("VF-REPLAY-RESULT %s\n", b)
		return
	}

	stats := newStats(prop.id, test)
	defer func() {
		if prop.extra != nil {
			prop.extra(stats)
		}
		stats.write()
	}()
	rapid.Check(t, func(rt *rapid.T) {
		p := prop.gen(rt)
		planJSON, err := json.Marshal(p)
		if err != nil {
			rt.Fatalf("plan does not marshal: %v", err)
		}
		if prop.journal {
			vfJournal(prop.id, test, planJSON)
		}
		stop := vfStallWatch(prop.stallIsViolation, func(msg string) {
			res := vfResult{NonTrivial: true}
			res.failf("stalled-on-proxy-lock", "%s", msg)
			stats.record(planJSON, res)
			vfWriteFail(failPath, prop.id, test, planJSON, res)
			stats.Violations = append(stats.Violations, res.Sig)
			fmt.Printf("VF-VIOLATION property=%s sig=%s %s\n", prop.id, res.Sig, res.Violation)
			if prop.extra != nil {
				prop.extra(stats)
			}
			stats.write()
			os.Exit(1)
		})
		res := safeRun(p)
		stop()
		stats.record(planJSON, res)
		if res.Violation != "" {
			if known[res.Sig] {
				stats.KnownHits[res.Sig]++
				return
			}
			vfWriteFail(failPath, prop.id, test, planJSON, res)
			stats.Violations = append(stats.Violations, res.Sig)
			fmt.Printf("VF-VIOLATION property=%s sig=%s %s\n", prop.id, res.Sig, res.Violation)
			rt.Fatalf("violation [%s]: %s", res.Sig, res.Violation)
		}
	})
}

// vfStallWatch starts a watchdog (outside any bubble: it sees real time) for the case about to run and returns the
// function that ends it. After VF_STALL_S seconds (default 40) it looks at all goroutine stacks every two seconds; when
// two looks in a row show (a) nobody in a bubble running or runnable and (b) the same bubble goroutine(s) queued on
// a sync.Mutex / sync.RWMutex from within the proxy's own code (not the harness's), the case cannot move any more:
// onStall is called with the evidence and does not return.
func vfStallWatch(enabled bool, onStall func(msg string)) (stop func()) {
	if !enabled {
		return func() {}
	}
	done := make(chan struct{})
	go func() {
		limit := time.Duration(vfEnvInt("VF_STALL_S", 40)) * time.Second
		select {
		case <-done:
			return
		case <-time.After(limit):
		}
		prev := ""
		for {
			key, evidence := vfStalledOnProxyLock()
			if key != "" && key == prev {
				onStall("the case has come to a standstill: a goroutine of the proxy is queued on one of the proxy's locks, nothing in the bubble is running, and the lock's holder waits for time to pass (for " + limit.String() + " of real time and two looks two seconds apart):\n" + evidence)
				return
			}
			prev = key
			select {
			case <-done:
				return
			case <-time.After(2 * time.Second):
			}
		}
	}()
	return func() { close(done) }
}

func vfStalledOnProxyLock() (key, evidence string) { return vfQueuedOnProxyLock(true, "") }

// vfQueuedOnProxyLock lists the bubble goroutines queued on a sync.Mutex / sync.RWMutex from within the proxy's own
// code. standstill: only if nobody in a bubble is running or runnable; mustContain: only goroutines whose stack
// mentions this function.
func vfQueuedOnProxyLock(standstill bool, mustContain string) (key, evidence string) {
	buf := make([]byte, 8<<20)
	buf = buf[:runtime.Stack(buf, true)]
	var queued []string
	for _, g := range strings.Split(string(buf), "\n\n") {
		head, _, _ := strings.Cut(g, "\n")
		if !strings.Contains(head, "synctest bubble") {
			continue
		}
		if standstill && (strings.Contains(head, "[running") || strings.Contains(head, "[runnable")) {
			return "", ""
		}
		if mustContain != "" && !strings.Contains(g, mustContain) {
			continue
		}
		if !(strings.Contains(head, "sync.Mutex.Lock") || strings.Contains(head, "sync.RWMutex.RLock") || strings.Contains(head, "sync.RWMutex.Lock")) {
			continue
		}
		// the innermost frame that is not sync / runtime decides whose lock it is
		lines := strings.Split(g, "\n")
		for i := 1; i+1 < len(lines); i += 2 {
			fn := lines[i]
			if strings.HasPrefix(fn, "sync.") || strings.HasPrefix(fn, "internal/") || strings.HasPrefix(fn, "runtime.") {
				continue
			}
			file := strings.TrimSpace(lines[i+1])
			if strings.Contains(fn, "kamal-proxy/internal/server.") && !strings.Contains(file, "zz_vf_") && !strings.Contains(file, "/vf_") {
				n := min(len(lines), 14)
				queued = append(queued, strings.Join(lines[:n], "\n"))
			}
			break
		}
	}
	if len(queued) == 0 {
		return "", ""
	}
	sort.Strings(queued)
	var ids []string
	for _, q := range queued {
		h, _, _ := strings.Cut(q, "\n")
		ids = append(ids, h)
	}
	return strings.Join(ids, "|"), strings.Join(queued, "\n\n")
}

func vfEnvInt(name string, def int) int {
	if v, err := strconv.Atoi(os.Getenv(name)); err == nil {
		return v
	}
	return def
}
