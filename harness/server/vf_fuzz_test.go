//go:build verif && go1.25

package server

// Native coverage-guided fuzz targets (thorough tier). Each one is a rapid property converted with
// rapid.MakeFuzz, so the fuzzer mutates the same structured generators the rapid layers use, and each
// carries its semantic oracle inside. No bubble, no network: these are the byte-level cores.

import (
	"bytes"
	"context"
	"fmt"
	"html"
	"net/http"
	"net/http/httptest"
	"net/http/httputil"
	"net/url"
	"os"
	"strings"
	"testing"
	"testing/fstest"

	"pgregory.net/rapid"

	"github.com/basecamp/kamal-proxy/internal/pages"
)

func vfBareService(name string, hosts, prefixes []string) *Service {
	so := ServiceOptions{Hosts: append([]string(nil), hosts...), PathPrefixes: append([]string(nil), prefixes...), TLSRedirect: true}
	so.Normalize()
	return &Service{name: name, options: so, pauseController: NewPauseController()}
}

// C04: a bare ServiceMap against the reference router.
func vfFuzzRouteProp(t *rapid.T) {
	specs := c04GenServices(t, 5)
	reqs := c04GenRequests(t, specs)
	m := NewServiceMap()
	for _, i := range rapid.Permutation(vfIota(len(specs))).Draw(t, "order") {
		s := specs[i]
		m.Set(vfBareService(s.Name, s.Hosts, s.Prefixes))
	}
	for _, rq := range reqs {
		u, err := url.ParseRequestURI(rq.Path)
		if err != nil {
			continue
		}
		req := &http.Request{Host: rq.Host, URL: u}
		got := ""
		if svc, _ := m.ServiceForRequest(req); svc != nil {
			got = svc.name
		}
		if want, _ := vfRefRoute(specs, rq.Host, u.Path); got != want {
			t.Fatalf("host=%q path=%q routed to %q, reference says %q; services=%+v", rq.Host, rq.Path, got, want, specs)
		}
	}
}

func FuzzVF_C04_Route(f *testing.F) { f.Fuzz(rapid.MakeFuzz(vfFuzzRouteProp)) }

// C10: the rollout decision as a function of the Cookie header.
func vfFuzzCookieProp(t *rapid.T) {
	v := c10GenValue(t, "value")
	allow := []string{}
	if rapid.Bool().Draw(t, "allowed") {
		allow = append(allow, v)
	}
	p1 := rapid.IntRange(0, 100).Draw(t, "p1")
	p2 := rapid.IntRange(p1, 100).Draw(t, "p2")
	dec := func(pct int, al []string, hdr string) bool {
		req, _ := http.NewRequest("GET", "/", nil)
		if hdr != "" {
			req.Header.Set("Cookie", hdr)
		}
		return NewRolloutController(pct, al).RequestUsesRolloutGroup(req)
	}
	clean := "kamal-rollout=" + v
	a, b := dec(p1, nil, clean), dec(p2, nil, clean)
	if a && !b {
		t.Fatalf("value %q included at %d%% but not at %d%%", v, p1, p2)
	}
	if a != dec(p1, nil, clean) {
		t.Fatalf("value %q: decision not repeatable", v)
	}
	if !dec(100, nil, clean) {
		t.Fatalf("value %q not included at 100%%", v)
	}
	if len(allow) > 0 && !dec(p1, allow, clean) {
		t.Fatalf("allowlisted value %q not included at %d%%", v, p1)
	}
	junk := rapid.SampledFrom([]string{"garbage", "bad name=1", "x=\"unterminated", "=novalue", "a=b", "", "x=a b c"}).Draw(t, "junk")
	for _, hdr := range []string{clean + "; " + junk, junk + "; " + clean, junk + ";" + clean + ";"} {
		if dec(p1, nil, hdr) != a {
			t.Fatalf("header %q decided differently from the cookie alone (%v) at %d%%", hdr, a, p1)
		}
	}
	other := rapid.SampledFrom([]string{"kamal-rollout2", "Kamal-Rollout", "xkamal-rollout", "kamal_rollout"}).Draw(t, "lookalike")
	if dec(100, []string{v}, other+"="+v) {
		t.Fatalf("look-alike cookie name %q opted the request in", other)
	}
}

func FuzzVF_C10_Cookie(f *testing.F) { f.Fuzz(rapid.MakeFuzz(vfFuzzCookieProp)) }

// C14: the buffer with larger sizes and limits than the exhaustive layer reaches.
func vfFuzzBufferProp(t *rapid.T) {
	u := c14Unit{Ctor: rapid.SampledFrom([]string{"write", "read"}).Draw(t, "ctor"), MaxMem: int64(rapid.IntRange(0, 70).Draw(t, "mem")), Max: int64(rapid.IntRange(0, 120).Draw(t, "max"))}
	for i, n := 0, rapid.IntRange(0, 8).Draw(t, "nchunks"); i < n; i++ {
		u.Chunks = append(u.Chunks, rapid.IntRange(0, 60).Draw(t, "chunk"))
	}
	if res := c14UnitRun(nil, u); res.Violation != "" {
		t.Fatalf("%s", res.Violation)
	}
}

func FuzzVF_C14_Buffer(f *testing.F) {
	os.Setenv("TMPDIR", f.TempDir()) // every fuzz worker process watches a temp directory of its own
	f.Fuzz(rapid.MakeFuzz(vfFuzzBufferProp))
}

// C16: the HTTPS redirect's Location for arbitrary hosts and request targets.
func vfFuzzRedirectProp(t *rapid.T) {
	host := rapid.SampledFrom([]string{"a.test", "a.test:80", "a.test:8080", "[::1]", "[::1]:8080", "127.0.0.1:81", "xn--caf-dma.test:443", "A.TEST:1"}).Draw(t, "host")
	segs := rapid.SliceOfN(rapid.SampledFrom([]string{"a", "%2F", "%41", "b%20c", "%C3%A9", ";p=1", "..", "", "x=y&z", "%7e"}), 0, 5).Draw(t, "segs")
	target := "/" + strings.Join(segs, "/")
	if q := rapid.SampledFrom([]string{"", "?", "?a=1&b=2", "?a;b", "?%zz", "?u=http://evil/"}).Draw(t, "query"); q != "" {
		target += q
	}
	req, err := c16ParseRequest(host, target)
	if err != nil {
		return // not a request net/http would hand to the proxy
	}
	s := vfBareService("s", []string{"a.test"}, nil)
	s.options.TLSEnabled = true
	rec := httptest.NewRecorder()
	if !s.shouldRedirectToHTTPS(req) {
		t.Fatalf("TLS+redirect service does not redirect a plain request")
	}
	s.redirectToHTTPS(rec, req)
	want := "https://" + c16HostNoPort(host) + target
	if rec.Code != 301 || rec.Header().Get("Location") != want {
		t.Fatalf("Host=%q target=%q: status %d Location %q, want 301 %q", host, target, rec.Code, rec.Header().Get("Location"), want)
	}
}

func FuzzVF_C16_Redirect(f *testing.F) { f.Fuzz(rapid.MakeFuzz(vfFuzzRedirectProp)) }

// C08: the stop message rendered into the built-in and a custom 503 page.
func vfFuzzStopMessageProp(t *rapid.T) {
	msg := string(rapid.SliceOfN(rapid.SampledFrom([]rune("ab <>&\"'{}.=/-;:#é✓\n\t\\%`$()[]|!?@^~")), 0, 60).Draw(t, "msg"))
	if rapid.Bool().Draw(t, "hostile") {
		msg = rapid.SampledFrom(c08HostileMsgs).Draw(t, "hostile-msg")
	}
	custom := fstest.MapFS{"503.html": {Data: []byte("<html>" + vfCustom503Marker + "<p id=m>{{ .Message }}</p></html>")}}
	for _, useCustom := range []bool{false, true} {
		inner := http.HandlerFunc(func(w http.ResponseWriter, r *http.Request) {
			SetErrorResponse(w, r, http.StatusServiceUnavailable, struct{ Message string }{msg})
		})
		var h http.Handler = inner
		var err error
		if useCustom {
			if h, err = WithErrorPageMiddleware(custom, false, h); err != nil {
				t.Fatalf("custom pages: %v", err)
			}
		}
		if h, err = WithErrorPageMiddleware(pages.DefaultErrorPages, true, h); err != nil {
			t.Fatalf("default pages: %v", err)
		}
		rec := httptest.NewRecorder()
		h.ServeHTTP(rec, httptest.NewRequest("GET", "/", nil))
		body := rec.Body.String()
		if rec.Code != 503 || useCustom != strings.Contains(body, vfCustom503Marker) {
			t.Fatalf("custom=%v: status %d, marker present=%v", useCustom, rec.Code, strings.Contains(body, vfCustom503Marker))
		}
		region, ok := c08MessageRegion(body, useCustom)
		if !ok {
			t.Fatalf("custom=%v: no message paragraph in the page", useCustom)
		}
		if msg == "" && !useCustom {
			if !strings.Contains(region, c08DefaultText) {
				t.Fatalf("empty message must give the default text, got %q", region)
			}
			continue
		}
		if why := c08CheckEscaped(region); why != "" {
			t.Fatalf("custom=%v message %q: %s (region %q)", useCustom, msg, why, region)
		}
		if got, want := html.UnescapeString(region), c08WantText(msg); got != want {
			t.Fatalf("custom=%v: region unescapes to %q, want %q", useCustom, got, want)
		}
	}
}

func FuzzVF_C08_StopMessage(f *testing.F) { f.Fuzz(rapid.MakeFuzz(vfFuzzStopMessageProp)) }

// C13: what Target.rewrite makes of the inbound URL (prefix stripping, raw path, raw query).
func vfFuzzRewriteProp(t *rapid.T) {
	prefix := rapid.SampledFrom([]string{"/app", "/a/b", "/api"}).Draw(t, "prefix")
	rest := rapid.SampledFrom(c13Rests).Draw(t, "rest")
	if rapid.Bool().Draw(t, "compose") {
		rest = "/" + strings.Join(rapid.SliceOfN(rapid.SampledFrom([]string{"x", "a%2Fb", "%41", "app", "", "%c3%a9", "a;b", "~!$&'()*+,=", "%25"}), 0, 4).Draw(t, "segs"), "/")
	}
	query := rapid.SampledFrom(c13Queries).Draw(t, "query")
	strip := rapid.Bool().Draw(t, "strip")
	target := prefix + rest + query
	in, err := c16ParseRequest("svc.test", target)
	if err != nil {
		return
	}
	tg, err := NewTarget("backend:80", TargetOptions{})
	if err != nil {
		t.Fatalf("NewTarget: %v", err)
	}
	if strip {
		in = in.WithContext(contextWithRouting(in, prefix))
	}
	out := in.Clone(in.Context())
	pr := &httputil.ProxyRequest{In: in, Out: out}
	tg.rewrite(pr)
	var buf bytes.Buffer
	out.Write(&buf) // the request line as the transport would send it
	line := strings.SplitN(buf.String(), "\r\n", 2)[0]
	parts := strings.SplitN(line, " ", 3)
	wantPath := prefix + rest
	if strip {
		wantPath = rest
		if wantPath == "" {
			wantPath = "/"
		}
	}
	if i := strings.Index(query, "#"); i >= 0 {
		return
	}
	if len(parts) != 3 || parts[1] != wantPath+query {
		t.Fatalf("%q (strip=%v) goes out as %q, want %q", target, strip, line, wantPath+query)
	}
	if out.Host != "svc.test" {
		t.Fatalf("Host rewritten to %q", out.Host)
	}
}

func FuzzVF_C13_Rewrite(f *testing.F) { f.Fuzz(rapid.MakeFuzz(vfFuzzRewriteProp)) }

var _ = fmt.Sprintf

func contextWithRouting(r *http.Request, prefix string) context.Context {
	return context.WithValue(r.Context(), contextKeyRoutingContext, &routingContext{MatchedPrefix: prefix})
}
