//go:build verif && go1.25

package server

// C08 — a stopped service answers 503 with the operator's message (custom page if there is one),
// health-check GETs get 200, nothing is forwarded; resume restores forwarding; redeploys leave the
// state alone.

import (
	"fmt"
	"html"
	"net/http"
	"net/url"
	"strings"
	"testing"
	"testing/synctest"
	"unicode/utf8"

	"pgregory.net/rapid"
)

type c08Plan struct {
	Cmds []vfCmd `json:"cmds"`
	// During[i] (op "" = none) is issued while Cmds[i] - a deploy whose new target answers its first probe
	// only after 300 ms - is still waiting for that target to become healthy.
	During []vfCmd `json:"during"`
}

var c08HostileMsgs = []string{
	"", "down for maintenance", "<script>alert(1)</script>", "{{ .Message }}", "{{ template \"404.html\" }}", "a & b", "&amp;", "&lt;b&gt;",
	"\"quoted\" 'single'", "</p></article><h1>x</h1>", "nul\x00byte", "héllo wörld ✓ 日本", "<!-- comment -->", "line1\nline2", "  spaced  ",
	"'+alert(1)+'", "<", ">", "&", "&#x3C;", strings.Repeat("long <msg> & ", 300),
}

func c08GenMsg(t *rapid.T) string {
	if rapid.IntRange(0, 2).Draw(t, "msg-src") > 0 {
		return rapid.SampledFrom(c08HostileMsgs).Draw(t, "msg")
	}
	rs := rapid.SliceOfN(rapid.SampledFrom([]rune("ab <>&\"'{}.=/-;:#é✓\n\t\\%")), 0, 40).Draw(t, "msg-runes")
	return string(rs)
}

func c08Gen(t *rapid.T) c08Plan {
	p := c08Plan{}
	m := newVFModel()
	// one or two services, possibly with custom pages
	ns := rapid.IntRange(1, 2).Draw(t, "nservices")
	for i := 0; i < ns; i++ {
		svc := vfSvcNames[i]
		spec := vfSvcSpec{Name: svc, Hosts: []string{svc + ".test"}}
		opt := vfOpts{ErrPages: rapid.IntRange(0, 2).Draw(t, "err-pages")}
		if rapid.IntRange(0, 2).Draw(t, "prefixed") == 0 {
			spec.Prefixes = []string{"/app"}
			opt.Strip = rapid.Bool().Draw(t, "strip")
		}
		if rapid.IntRange(0, 3).Draw(t, "hp") == 0 {
			opt.HealthPath = "/health"
		}
		c := vfCmd{Op: "deploy", Svc: svc, Spec: spec, Targets: vfPick(t, vfActivePool, 2, "target"), Opt: opt}
		m.apply(c)
		p.Cmds = append(p.Cmds, c)
	}
	n := rapid.IntRange(2, 14).Draw(t, "nsteps")
	for i := 0; i < n; i++ {
		svc := vfSvcNames[rapid.IntRange(0, ns-1).Draw(t, "svc")]
		s := m.Svcs[svc]
		var c vfCmd
		switch rapid.SampledFrom([]string{"stop", "stop", "stop", "pause", "resume", "resume", "deploy", "rollout-deploy", "rollout-set", "rollout-stop"}).Draw(t, "op") {
		case "stop":
			c = vfCmd{Op: "stop", Svc: svc, Msg: c08GenMsg(t)}
		case "pause":
			c = vfCmd{Op: "pause", Svc: svc, MaxPauseMs: 60000}
		case "resume":
			c = vfCmd{Op: "resume", Svc: svc}
		case "deploy":
			opt := s.Opt
			if rapid.Bool().Draw(t, "change-pages") {
				opt.ErrPages = rapid.IntRange(0, 2).Draw(t, "err-pages")
			}
			c = vfCmd{Op: "deploy", Svc: svc, Spec: s.Spec, Targets: vfPick(t, vfActivePool, 2, "target"), Opt: opt}
		case "rollout-deploy":
			c = vfCmd{Op: "rollout-deploy", Svc: svc, Targets: vfPick(t, vfRolloutPool, 1, "rtarget")}
		case "rollout-set":
			if s.Rollout == nil {
				c = vfCmd{Op: "rollout-deploy", Svc: svc, Targets: vfPick(t, vfRolloutPool, 1, "rtarget")}
			} else {
				c = vfCmd{Op: "rollout-set", Svc: svc, Pct: 100}
			}
		case "rollout-stop":
			c = vfCmd{Op: "rollout-stop", Svc: svc}
		}
		c.Spec.Name = c.Svc
		var during vfCmd
		if c.Op == "deploy" && rapid.IntRange(0, 2).Draw(t, "overlap") == 0 {
			c.Targets = []string{fmt.Sprintf("slow%d:80", i)}
			switch rapid.SampledFrom([]string{"stop", "stop", "pause", "resume"}).Draw(t, "during") {
			case "stop":
				during = vfCmd{Op: "stop", Svc: svc, Msg: c08GenMsg(t)}
			case "pause":
				during = vfCmd{Op: "pause", Svc: svc, MaxPauseMs: 60000}
			case "resume":
				during = vfCmd{Op: "resume", Svc: svc}
			}
		}
		m.apply(c)
		if during.Op != "" {
			m.apply(during)
		}
		p.Cmds = append(p.Cmds, c)
		for len(p.During) < len(p.Cmds)-1 {
			p.During = append(p.During, vfCmd{})
		}
		p.During = append(p.During, during)
	}
	return p
}

const c08BuiltinMarker = "<title>503 — Service Temporarily Unavailable</title>"
const c08DefaultText = "The service is temporarily unavailable."

// c08MessageRegion extracts the text of the paragraph that carries the message.
func c08MessageRegion(body string, custom bool) (string, bool) {
	open := "<p>"
	if custom {
		open = "<p id=m>"
	} else if i := strings.Index(body, "<article>"); i >= 0 {
		body = body[i:]
	} else {
		return "", false
	}
	i := strings.Index(body, open)
	if i < 0 {
		return "", false
	}
	rest := body[i+len(open):]
	j := strings.Index(rest, "</p>")
	if j < 0 {
		return "", false
	}
	return rest[:j], true
}

func c08CheckEscaped(region string) string {
	for i := 0; i < len(region); i++ {
		switch region[i] {
		case '<', '>':
			return fmt.Sprintf("raw %q in the message region", region[i])
		case '&':
			semi := strings.IndexByte(region[i:], ';')
			if semi < 2 || semi > 10 {
				return "bare & in the message region"
			}
		}
	}
	return ""
}

func c08WantText(msg string) string {
	// html/template replaces NUL (and leaves valid UTF-8 alone)
	msg = strings.ReplaceAll(msg, "\x00", "�")
	if !utf8.ValidString(msg) {
		msg = strings.ToValidUTF8(msg, "�")
	}
	return msg
}

func c08Run(t *testing.T, p c08Plan) (res vfResult) {
	vfBubble(t, func(w *vfWorld) {
		vfSetupWorldTargets(w)
		r := w.newRouter("r")
		h := NewServer(&Config{HttpPort: 80, HttpsPort: 443}, r).buildHandler()
		m := newVFModel()
		stateChanges, escaped := 0, false
		received := func() int {
			n := 0
			for _, tg := range w.targets {
				n += len(tg.reqLog())
			}
			return n
		}
		for i, c := range p.Cmds {
			prev := ""
			if s := m.Svcs[c.Svc]; s != nil {
				prev = s.State
			}
			want := m.apply(c)
			var got vfCmdResult
			ctx := fmt.Sprintf("step %d %s", i, c)
			if i < len(p.During) && p.During[i].Op != "" {
				d := p.During[i]
				for _, tn := range c.Targets {
					w.target(tn).setProbeScript([]vfProbeStep{{Kind: "slow", DelayMs: 300, Status: 200}}, vfProbeStep{Kind: "ok"})
				}
				pc := w.goCmd(func() error { got = vfExec(w, r, c); return nil })
				synctest.Wait() // the deploy now waits for its target to become healthy
				wantD := m.apply(d)
				gotD := vfExec(w, r, d)
				if gotD.Panicked != "" || !vfClassOK(wantD, vfErrClass(gotD.Err)) {
					res.failf("wrong-result", "%s: overlapping command %s: result %q panic=%q, model accepts %v", ctx, d, vfErrClass(gotD.Err), gotD.Panicked, wantD)
					return
				}
				<-pc.done
				ctx += " overlapped by " + d.String()
				res.label("command-during-deploy")
			} else {
				got = vfExec(w, r, c)
			}
			if got.Panicked != "" || !vfClassOK(want, vfErrClass(got.Err)) {
				res.failf("wrong-result", "%s: result %q panic=%q, model accepts %v", ctx, vfErrClass(got.Err), got.Panicked, want)
				return
			}
			synctest.Wait()
			if s := m.Svcs[c.Svc]; s != nil && s.State != prev && prev != "" {
				stateChanges++
			}
			if !vfCheckList(r, m, &res, ctx) {
				return
			}
			for _, name := range vfSortedKeys(m.Svcs) {
				s := m.Svcs[name]
				host := s.Spec.Hosts[0]
				hp := s.Opt.healthPath()
				pfx := ""
				if pp := s.Spec.normPrefixes()[0]; pp != "/" {
					pfx = pp
				}
				before := received()
				type probe struct {
					method, path string
				}
				probes := []probe{{"GET", pfx + "/"}, {"GET", pfx + "/some/page?x=1"}, {"POST", pfx + "/"}, {"POST", pfx + hp}, {"GET", pfx + hp}, {"GET", pfx + hp + "/"},
					{"GET", pfx + hp + "?q=1"}, {"HEAD", pfx + hp},
					// the same path with one octet percent-encoded: still exactly the health-check path
					{"GET", pfx + fmt.Sprintf("/%%%02x%s", hp[1], hp[2:])}}
				for _, pr := range probes {
					// "GET requests whose path is exactly its health-check path": the path as the client sent it
					sent := strings.SplitN(pr.path, "?", 2)[0]
					if dec, err := url.PathUnescape(sent); err == nil {
						sent = dec
					}
					isHealth := pr.method == "GET" && sent == hp
					if s.State == "paused" && !isHealth {
						continue // held; C07's business
					}
					req := vfNewRequest(pr.method, host, pr.path, nil, nil)
					rp := w.do(h, req)
					pctx := fmt.Sprintf("%s: service %s (%s) %s %s", ctx, name, s.State, pr.method, pr.path)
					switch {
					case s.State == "running":
						if rp.Status != 200 || !vfContains(s.Active, rp.Target) {
							res.failf("running-not-forwarded", "%s: got %v, want 200 from %v", pctx, rp, s.Active)
							return
						}
					case isHealth:
						if rp.Status != 200 || rp.Target != "" {
							res.failf("health-check-not-200", "%s: got %v, want 200 from the proxy itself", pctx, rp)
							return
						}
					case s.State == "stopped":
						if rp.Status != http.StatusServiceUnavailable || rp.Target != "" {
							res.failf("stopped-not-503", "%s: got %v, want 503 from the proxy", pctx, rp)
							return
						}
						body := string(rp.Body)
						custom := s.Opt.ErrPages == 1
						if custom != strings.Contains(body, vfCustom503Marker) || custom == strings.Contains(body, c08BuiltinMarker) {
							res.failf("wrong-503-page", "%s: custom page expected=%v; body starts %q", pctx, custom, body[:min(len(body), 120)])
							return
						}
						region, ok := c08MessageRegion(body, custom)
						if !ok {
							res.failf("no-message-region", "%s: cannot find the message paragraph in the 503 page", pctx)
							return
						}
						if s.Msg == "" && !custom {
							if !strings.Contains(region, c08DefaultText) {
								res.failf("default-text-missing", "%s: empty message must give the default text, region=%q", pctx, region)
								return
							}
							break
						}
						if why := c08CheckEscaped(region); why != "" {
							res.failf("message-not-escaped", "%s: %s: message=%q region=%q", pctx, why, s.Msg, region)
							return
						}
						if got, want := html.UnescapeString(region), c08WantText(s.Msg); got != want {
							res.failf("message-altered", "%s: message region unescapes to %q, want %q", pctx, got, want)
							return
						}
						if strings.ContainsAny(s.Msg, "<>&\"'{") {
							escaped = true
						}
					}
				}
				if s.State != "running" && received() != before {
					res.failf("forwarded-while-stopped", "%s: service %s is %s, yet its targets received %d request(s)", ctx, name, s.State, received()-before)
					return
				}
			}
		}
		res.NonTrivial = escaped || stateChanges >= 3
		if escaped {
			res.label("message-needs-escaping")
		}
		if stateChanges >= 3 {
			res.label("state-changes>=3")
		}
	})
	return res
}

func TestVF_C08(t *testing.T) {
	vfCheck(t, vfProp[c08Plan]{id: "C08", gen: c08Gen, run: c08Run})
}
