//go:build verif && go1.25

package server

// C14 — buffering delivers exact bodies, enforces limits and cleans up.
// Layer 1: the Buffer itself, small scope, exhaustive. Layer 2: the middlewares end to end.

import (
	"bytes"
	"errors"
	"fmt"
	"io"
	"os"
	"testing"
)

type c14Unit struct {
	Ctor   string `json:"ctor"` // write | read
	MaxMem int64  `json:"max_mem"`
	Max    int64  `json:"max"` // 0 = unlimited
	Chunks []int  `json:"chunks"`
}

func c14Compositions(n int, yield func([]int) bool) bool {
	if n == 0 {
		// also exercise explicit empty writes
		return yield(nil) && yield([]int{0})
	}
	// every composition of n into positive parts: 2^(n-1)
	for mask := 0; mask < 1<<(n-1); mask++ {
		var parts []int
		cur := 1
		for i := 0; i < n-1; i++ {
			if mask&(1<<i) != 0 {
				parts = append(parts, cur)
				cur = 1
			} else {
				cur++
			}
		}
		parts = append(parts, cur)
		if !yield(parts) {
			return false
		}
	}
	return true
}

type c14ChunkReader struct {
	data   []byte
	chunks []int
	i      int
	closed bool
}

func (r *c14ChunkReader) Read(p []byte) (int, error) {
	for r.i < len(r.chunks) && r.chunks[r.i] == 0 {
		r.i++
	}
	if r.i >= len(r.chunks) {
		return 0, io.EOF
	}
	n := r.chunks[r.i]
	r.i++
	copy(p, r.data[:n])
	r.data = r.data[n:]
	return n, nil
}
func (r *c14ChunkReader) Close() error { r.closed = true; return nil }

func c14TmpFiles() []string {
	ents, _ := os.ReadDir(os.TempDir())
	var out []string
	for _, e := range ents {
		if len(e.Name()) > 13 && e.Name()[:13] == "proxy-buffer-" {
			out = append(out, e.Name())
		}
	}
	return out
}

func c14UnitRun(t *testing.T, p c14Unit) (res vfResult) {
	total := 0
	for _, c := range p.Chunks {
		total += c
	}
	data := c13Body(total, 5)
	wantOverflow := p.Max > 0 && int64(total) > p.Max
	desc := fmt.Sprintf("ctor=%s max-mem=%d max=%d chunks=%v", p.Ctor, p.MaxMem, p.Max, p.Chunks)
	if n := len(c14TmpFiles()); n != 0 {
		res.failf("harness", "%s: temp dir not clean before the case (%d files)", desc, n)
		return
	}
	var buf *Buffer
	overflowed := false
	if p.Ctor == "write" {
		buf = NewBufferedWriteCloser(p.Max, p.MaxMem)
		written := 0
		for _, c := range p.Chunks {
			n, err := buf.Write(data[written : written+c])
			if err != nil {
				if !errors.Is(err, ErrMaximumSizeExceeded) {
					res.failf("write-error", "%s: Write returned %v", desc, err)
					buf.Close()
					return
				}
				// the response middleware swallows this error and keeps writing what the target sends:
				// the overflow must stay recorded whatever comes later
				overflowed = true
				written += c
				continue
			}
			if overflowed {
				written += c
				continue
			}
			if n != c {
				res.failf("short-write", "%s: Write accepted %d of %d bytes without error", desc, n, c)
				buf.Close()
				return
			}
			written += c
			if buf.memBytesWritten > p.MaxMem || int64(buf.memoryBuffer.Len()) > p.MaxMem {
				res.failf("memory-limit", "%s: %d bytes held in memory after %d written, limit %d", desc, buf.memoryBuffer.Len(), written, p.MaxMem)
				buf.Close()
				return
			}
			spilled := int64(written) > p.MaxMem
			if files := c14TmpFiles(); (len(files) == 1) != spilled || len(files) > 1 {
				res.failf("spill-file", "%s: after %d bytes spill expected=%v, temp files=%v", desc, written, spilled, files)
				buf.Close()
				return
			}
		}
		if overflowed != buf.Overflowed() {
			res.failf("overflow-flag", "%s: a Write reported overflow=%v, after all writes Overflowed()=%v", desc, overflowed, buf.Overflowed())
			buf.Close()
			return
		}
	} else {
		src := &c14ChunkReader{data: append([]byte(nil), data...), chunks: p.Chunks}
		rc, err := NewBufferedReadCloser(src, p.Max, p.MaxMem)
		if err != nil {
			if !errors.Is(err, ErrMaximumSizeExceeded) {
				res.failf("read-error", "%s: NewBufferedReadCloser returned %v", desc, err)
				return
			}
			overflowed = true
			if files := c14TmpFiles(); len(files) != 0 {
				res.failf("spill-left-after-overflow", "%s: overflow reported but temp files remain: %v", desc, files)
				return
			}
		} else {
			buf = rc.(*Buffer)
			if buf.memBytesWritten > p.MaxMem || int64(buf.memoryBuffer.Len()) > p.MaxMem {
				res.failf("memory-limit", "%s: %d bytes held in memory, limit %d", desc, buf.memoryBuffer.Len(), p.MaxMem)
				buf.Close()
				return
			}
			spilled := int64(total) > p.MaxMem
			if files := c14TmpFiles(); (len(files) == 1) != spilled || len(files) > 1 {
				res.failf("spill-file", "%s: spill expected=%v, temp files=%v", desc, spilled, files)
				buf.Close()
				return
			}
		}
	}
	if overflowed != wantOverflow {
		res.failf("overflow-decision", "%s: total=%d overflow reported=%v, want %v", desc, total, overflowed, wantOverflow)
		if buf != nil {
			buf.Close()
		}
		return
	}
	if buf != nil && !overflowed {
		var got bytes.Buffer
		var err error
		if p.Ctor == "write" {
			err = buf.Send(&got)
		} else {
			_, err = io.Copy(&got, buf)
		}
		if err != nil || !bytes.Equal(got.Bytes(), data) {
			res.failf("content", "%s: read back %d bytes (err=%v), wrote %d; equal=%v", desc, got.Len(), err, len(data), bytes.Equal(got.Bytes(), data))
			buf.Close()
			return
		}
		if _, err := buf.Write([]byte("x")); !errors.Is(err, ErrWriteAfterRead) {
			res.failf("write-after-read", "%s: Write after reading returned %v", desc, err)
			buf.Close()
			return
		}
	}
	if buf != nil {
		buf.Close()
		buf.Close() // idempotent
	}
	if files := c14TmpFiles(); len(files) != 0 {
		res.failf("spill-left", "%s: temp files remain after Close: %v", desc, files)
		for _, f := range files {
			os.Remove(os.TempDir() + "/" + f)
		}
		return
	}
	crossing := false
	sofar := int64(0)
	for _, c := range p.Chunks {
		if sofar < p.MaxMem && sofar+int64(c) > p.MaxMem {
			crossing = true
		}
		sofar += int64(c)
	}
	res.NonTrivial = crossing || wantOverflow
	if crossing {
		res.label("chunk-crosses-memory-limit")
	}
	if wantOverflow {
		res.label("overflow")
	}
	return res
}

func c14UnitCases(maxLen int) func(yield func(c14Unit) bool) {
	return func(yield func(c14Unit) bool) {
		for _, ctor := range []string{"write", "read"} {
			for mem := int64(0); mem <= 6; mem++ {
				for max := int64(0); max <= 8; max++ {
					for n := 0; n <= maxLen; n++ {
						ok := c14Compositions(n, func(parts []int) bool {
							return yield(c14Unit{Ctor: ctor, MaxMem: mem, Max: max, Chunks: append([]int(nil), parts...)})
						})
						if !ok {
							return
						}
					}
				}
			}
		}
	}
}

func TestVF_C14_Unit(t *testing.T) {
	maxLen := vfEnvInt("VF_C14_MAXLEN", 10)
	vfEnumerate(t, vfEnum[c14Unit]{id: "C14", cases: c14UnitCases(maxLen), run: c14UnitRun})
}

// ---------------------------------------------------------------- layer 2: middlewares end to end
