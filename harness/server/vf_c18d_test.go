//go:build verif && go1.25

package server

// C18 (d) — a probe result that changes a target's health, stopped in the middle (at the hook
// target.health-changed: the state is set, the load balancer has not been told yet), while an operator command
// that disposes, drains or re-reads that very target runs; then the probe goes on. Lock-order inversions between
// "a probe result is being applied" and "a command takes the target away" need exactly this overlap, and its
// window is far too narrow to hit by chance. Oracle: everything ends (a hang shows at the test deadline as
// goroutines blocked on sync locks inside kamal-proxy frames - the driver reports the deadlock), nothing panics,
// and the proxy still works afterwards.

import (
	"fmt"
	"runtime"
	"strings"
	"testing"
	"testing/synctest"
	"time"

	"pgregory.net/rapid"
)

type c18dPlan struct {
	Targets int      `json:"targets"`
	Rollout bool     `json:"rollout"`  // the flipping target belongs to the rollout slot
	Recover bool     `json:"recover"`  // the flip is unhealthy -> healthy (else healthy -> unhealthy)
	Cmds    []string `json:"cmds"`     // run one after the other while the probe is held: remove | redeploy | rollout-deploy | rollout-stop | pause | stop | resume | list | request
	Restart bool     `json:"restart"`  // the proxy was restored from its state file first
}

func c18dGen(t *rapid.T) c18dPlan {
	p := c18dPlan{Targets: rapid.IntRange(1, 3).Draw(t, "targets"), Rollout: rapid.Bool().Draw(t, "rollout"), Recover: rapid.Bool().Draw(t, "recover"),
		Restart: rapid.IntRange(0, 3).Draw(t, "restart") == 0}
	for i, n := 0, rapid.IntRange(1, 3).Draw(t, "ncmds"); i < n; i++ {
		p.Cmds = append(p.Cmds, rapid.SampledFrom([]string{"remove", "remove", "redeploy", "redeploy", "rollout-deploy", "rollout-stop", "pause", "stop", "resume", "list", "request"}).Draw(t, "cmd"))
	}
	return p
}

func c18dRun(t *testing.T, p c18dPlan) (res vfResult) {
	vfBubble(t, func(w *vfWorld) {
		r := w.newRouter("r")
		opts := ServiceOptions{Hosts: []string{"svc.test"}, TLSRedirect: true}
		opts.Normalize()
		to := vfFastTargetOptions()
		ivl := 100 * time.Millisecond
		to.HealthCheckConfig.Interval = ivl
		w.noteInterval(ivl)
		nset := 0
		mk := func(n int) []string {
			var out []string
			for i := 0; i < n; i++ {
				name := fmt.Sprintf("g%dt%d:80", nset, i)
				w.target(name)
				out = append(out, name)
			}
			nset++
			return out
		}
		active := mk(p.Targets)
		if err := vfDeploy(r, "svc", active, opts, to, 5*time.Second, 20*time.Millisecond); err != nil {
			res.failf("setup-failed", "deploy: %v", err)
			return
		}
		flipSet := active
		if p.Rollout {
			flipSet = mk(p.Targets)
			if err := vfRolloutDeploy(r, "svc", flipSet, 5*time.Second, 20*time.Millisecond); err != nil {
				res.failf("setup-failed", "rollout deploy: %v", err)
				return
			}
			vfRolloutSet(r, "svc", 100, nil)
		}
		synctest.Wait()
		if p.Restart {
			nr := vfNewRouter(vfPathOf(r))
			if err := nr.RestoreLastSavedState(); err != nil {
				res.failf("restore-failed", "%v", err)
				return
			}
			vfRemove(r, "svc")
			w.adopt(nr)
			r = nr
			synctest.Wait()
		}
		victim := w.targets[flipSet[0]]
		if p.Recover {
			// first make it unhealthy (unscheduled), then hold the probe that brings it back
			victim.setProbeScript([]vfProbeStep{{Kind: "status", Status: 500}}, vfProbeStep{Kind: "ok"})
			time.Sleep(ivl + ivl/2)
			synctest.Wait()
		} else {
			victim.setProbeScript(nil, vfProbeStep{Kind: "status", Status: 500})
		}
		sc := newVFSched(w, nil, []string{"target.health-changed"})
		held := ""
		for guard := 0; guard < 50 && held == ""; guard++ {
			time.Sleep(ivl / 2)
			synctest.Wait()
			for _, a := range sc.parkedActors() {
				if strings.HasPrefix(a, "probe:") {
					held = a
				}
			}
		}
		if held == "" {
			sc.stop()
			vfCurSched.Store(nil)
			res.Excluded = "no health change was observed (the probe did not flip the target)"
			return
		}
		// the probe result is half applied; now the operator's commands
		done := make(chan struct{})
		var panicked string
		go func() {
			defer close(done)
			defer func() {
				if rec := recover(); rec != nil {
					panicked = fmt.Sprint(rec)
				}
			}()
			for _, c := range p.Cmds {
				switch c {
				case "remove":
					vfRemove(r, "svc")
				case "redeploy":
					vfDeploy(r, "svc", mk(1), opts, to, 5*time.Second, 20*time.Millisecond)
				case "rollout-deploy":
					vfRolloutDeploy(r, "svc", mk(1), 5*time.Second, 20*time.Millisecond)
				case "rollout-stop":
					vfRolloutStop(r, "svc")
				case "pause":
					vfPause(r, "svc", 20*time.Millisecond, 200*time.Millisecond)
				case "stop":
					vfStop(r, "svc", 20*time.Millisecond, "m")
				case "resume":
					vfResume(r, "svc")
				case "list":
					vfList(r)
				case "request":
					w.do(r, vfNewRequest("GET", "svc.test", "/x", &vfCtl{}, nil))
				}
			}
		}()
		// Let the commands get as far as they can. If one of them waits for a lock the held probe owns, it is blocked
		// on a mutex, which the bubble never counts as idle: so this is a bounded number of yields, not synctest.Wait.
		finished := func() bool {
			select {
			case <-done:
				return true
			default:
				return false
			}
		}
		for spins := 0; spins < 20000 && !finished(); spins++ {
			runtime.Gosched()
			if spins%500 == 499 {
				time.Sleep(time.Millisecond) // deploys need their probes (virtual time) to go on
			}
		}
		overlapped := !finished()
		sc.stop() // the probe goes on
		vfCurSched.Store(nil)
		// everything must end now; a lock-order inversion leaves both sides blocked for ever, which the test deadline reports
		<-done
		synctest.Wait()
		if panicked != "" {
			res.failf("panic", "commands %v while a probe result of %s was half applied: %s", p.Cmds, held, panicked)
			return
		}
		// still alive
		vfList(r)
		if err := vfDeploy(r, "svc2", mk(1), ServiceOptions{Hosts: []string{"svc2.test"}, PathPrefixes: []string{"/"}}, to, 5*time.Second, 20*time.Millisecond); err != nil {
			res.failf("dead-after", "a deploy after the overlap failed: %v", err)
			return
		}
		res.NonTrivial = true
		if overlapped {
			res.label("command-was-waiting-when-the-probe-went-on")
		}
		res.label("cmd:" + p.Cmds[0])
	})
	return res
}

func TestVF_C18_ProbeVsCommand(t *testing.T) {
	vfCheck(t, vfProp[c18dPlan]{id: "C18", gen: c18dGen, run: c18dRun, journal: true})
}
