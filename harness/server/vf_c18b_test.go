//go:build verif && go1.25

package server

// C18 (hostile arguments) — every command, issued with boundary argument values the CLI accepts
// (zero / negative durations and sizes, out-of-range percentages), in every reachable state: no
// panic anywhere (a panic in a probe goroutine kills the whole proxy), and the command returns.

import (
	"fmt"
	"testing"
	"testing/synctest"
	"time"

	"pgregory.net/rapid"
)

type c18hPlan struct {
	Setup      []vfCmd `json:"setup"`
	Op         string  `json:"op"`
	Svc        string  `json:"svc"`
	DeployMs   int     `json:"deploy_ms"`
	DrainMs    int     `json:"drain_ms"`
	IntervalMs int     `json:"interval_ms"`
	ProbeMs    int     `json:"probe_ms"`
	RespMs     int     `json:"resp_ms"`
	MaxPauseMs int     `json:"max_pause_ms"`
	MaxMem     int64   `json:"max_mem"`
	MaxReq     int64   `json:"max_req"`
	MaxResp    int64   `json:"max_resp"`
	Pct        int     `json:"pct"`
	Msg        string  `json:"msg"`
}

var c18hDur = []int{0, -1, -1000, 1, 100, 1000}

func c18hGen(t *rapid.T) c18hPlan {
	p := c18hPlan{}
	m := newVFModel()
	n := rapid.IntRange(0, 5).Draw(t, "nsetup")
	for i := 0; i < n; i++ {
		p.Setup = append(p.Setup, vfGenOKCmd(t, m, vfGenCfg{Pause: true}))
	}
	p.Op = rapid.SampledFrom([]string{"deploy", "deploy", "deploy", "rollout-deploy", "pause", "stop", "rollout-set"}).Draw(t, "op")
	p.Svc = rapid.SampledFrom(vfSvcNames).Draw(t, "svc")
	p.DeployMs = rapid.SampledFrom(c18hDur).Draw(t, "deploy")
	p.DrainMs = rapid.SampledFrom(c18hDur).Draw(t, "drain")
	p.IntervalMs = rapid.SampledFrom(c18hDur).Draw(t, "interval")
	p.ProbeMs = rapid.SampledFrom(c18hDur).Draw(t, "probe")
	p.RespMs = rapid.SampledFrom(c18hDur).Draw(t, "resp")
	p.MaxPauseMs = rapid.SampledFrom(c18hDur).Draw(t, "max-pause")
	p.MaxMem = rapid.SampledFrom([]int64{0, -1, 1, 1 << 20}).Draw(t, "max-mem")
	p.MaxReq = rapid.SampledFrom([]int64{0, -1, 1, 100}).Draw(t, "max-req")
	p.MaxResp = rapid.SampledFrom([]int64{0, -1, 1, 100}).Draw(t, "max-resp")
	p.Pct = rapid.SampledFrom([]int{-1, 0, 100, 101, 1 << 30, -(1 << 30)}).Draw(t, "pct")
	p.Msg = rapid.SampledFrom(c08HostileMsgs).Draw(t, "msg")
	return p
}

func c18hRun(t *testing.T, p c18hPlan) (res vfResult) {
	vfBubble(t, func(w *vfWorld) {
		vfSetupWorldTargets(w)
		r := w.newRouter("r")
		m := newVFModel()
		for i, c := range p.Setup {
			want := m.apply(c)
			if got := vfExec(w, r, c); got.Panicked != "" || !vfClassOK(want, vfErrClass(got.Err)) {
				res.failf("setup-failed", "setup %d %s: %v %s", i, c, got.Err, got.Panicked)
				return
			}
		}
		synctest.Wait()
		ms := func(x int) time.Duration { return time.Duration(x) * time.Millisecond }
		to := TargetOptions{HealthCheckConfig: HealthCheckConfig{Path: "/up", Interval: ms(p.IntervalMs), Timeout: ms(p.ProbeMs)}, ResponseTimeout: ms(p.RespMs),
			BufferRequests: true, BufferResponses: true, MaxMemoryBufferSize: p.MaxMem, MaxRequestBodySize: p.MaxReq, MaxResponseBodySize: p.MaxResp}
		so := ServiceOptions{Hosts: []string{p.Svc + ".hostile.test"}, TLSRedirect: true}
		so.Normalize()
		w.noteWait(5 * time.Second)
		pc := w.goCmd(func() error {
			switch p.Op {
			case "deploy":
				return vfDeploy(r, p.Svc, []string{"ta0:80", "ta1:80"}, so, to, ms(p.DeployMs), ms(p.DrainMs))
			case "rollout-deploy":
				return vfRolloutDeploy(r, p.Svc, []string{"tr0:80"}, ms(p.DeployMs), ms(p.DrainMs))
			case "pause":
				return vfPause(r, p.Svc, ms(p.DrainMs), ms(p.MaxPauseMs))
			case "stop":
				return vfStop(r, p.Svc, ms(p.DrainMs), p.Msg)
			case "rollout-set":
				return vfRolloutSet(r, p.Svc, p.Pct, []string{""})
			}
			return nil
		})
		time.Sleep(10 * time.Second)
		synctest.Wait()
		desc := fmt.Sprintf("%s %s deploy-timeout=%dms drain=%dms interval=%dms probe-timeout=%dms target-timeout=%dms max-pause=%dms mem=%d req=%d resp=%d pct=%d",
			p.Op, p.Svc, p.DeployMs, p.DrainMs, p.IntervalMs, p.ProbeMs, p.RespMs, p.MaxPauseMs, p.MaxMem, p.MaxReq, p.MaxResp, p.Pct)
		if !pc.finished() {
			res.failf("command-hangs", "%s: did not return within 10 s of virtual time", desc)
			return
		}
		if pc.res.Panicked != "" {
			res.failf("panic", "%s: panicked: %s", desc, pc.res.Panicked)
			return
		}
		// the proxy still answers: a request per service must end (any status), list works
		for name, s := range m.Svcs {
			if s.State == "paused" {
				continue
			}
			host := s.Spec.normHosts()[0]
			if len(host) > 2 && host[:2] == "*." {
				host = "q." + host[2:]
			}
			pd := w.goDo(r, vfNewRequest("POST", host, s.Spec.normPrefixes()[0], &vfCtl{}, []byte("0123456789")))
			time.Sleep(40 * time.Second)
			synctest.Wait()
			if !pd.finished() {
				res.failf("request-hangs", "%s: afterwards a request to %s never ended", desc, name)
				return
			}
			if pd.resp.Panicked != "" && pd.resp.Panicked != "abort" {
				res.failf("panic", "%s: afterwards a request to %s panicked: %s", desc, name, pd.resp.Panicked)
				return
			}
		}
		if p.Op == "deploy" && pc.res.Err == nil {
			pd := w.goDo(r, vfNewRequest("POST", p.Svc+".hostile.test", "/", &vfCtl{}, []byte("0123456789")))
			time.Sleep(40 * time.Second)
			synctest.Wait()
			if !pd.finished() {
				res.failf("request-hangs", "%s: a request to the service deployed with these values never ended", desc)
				return
			}
			if pd.resp.Panicked != "" && pd.resp.Panicked != "abort" {
				res.failf("panic", "%s: a request to the service deployed with these values panicked: %s", desc, pd.resp.Panicked)
				return
			}
		}
		vfList(r)
		res.NonTrivial = len(m.Svcs) > 0
		res.label("op:" + p.Op)
	})
	return res
}

func TestVF_C18_Hostile(t *testing.T) {
	vfCheck(t, vfProp[c18hPlan]{id: "C18", gen: c18hGen, run: c18hRun, journal: true})
}
