//go:build verif && go1.25

package server

// The world of one case: in-memory network, scripted fake targets, captured
// logs, a private state/tmp directory, all inside one synctest bubble.

import (
	"syscall"
	"bytes"
	"context"
	"crypto/sha256"
	"encoding/hex"
	"encoding/json"
	"fmt"
	"io"
	"log/slog"
	"net"
	"net/http"
	"net/http/httptest"
	"os"
	"runtime"
	"runtime/debug"
	"sort"
	"strconv"
	"strings"
	"sync"
	"sync/atomic"
	"testing"
	"testing/synctest"
	"time"
)

const (
	vfProbeClientIP = "10.9.9.9"
	vfProxyClientIP = "10.0.0.1"
)

type vfLogRec struct {
	At    time.Duration
	Level slog.Level
	Msg   string
	Attrs map[string]any
}

// vfLogHandler is installed once per process as slog's default and records into the world of the case in
// progress (records logged while no world is current - a straggler of a finished case - are dropped).
type vfLogHandler struct{}

func (h *vfLogHandler) Enabled(context.Context, slog.Level) bool { return true }
func (h *vfLogHandler) WithAttrs([]slog.Attr) slog.Handler        { return h }
func (h *vfLogHandler) WithGroup(string) slog.Handler             { return h }
func (h *vfLogHandler) Handle(_ context.Context, r slog.Record) error {
	w := vfCurWorld.Load()
	if w == nil {
		return nil
	}
	rec := vfLogRec{At: w.now(), Level: r.Level, Msg: r.Message, Attrs: map[string]any{}}
	r.Attrs(func(a slog.Attr) bool {
		rec.Attrs[a.Key] = a.Value.Any()
		return true
	})
	w.logMu.Lock()
	w.logs = append(w.logs, rec)
	w.logMu.Unlock()
	return nil
}

type vfWorld struct {
	t     *testing.T
	net   *vfNet
	epoch time.Time
	dir   string

	closeCh chan struct{}
	wg      sync.WaitGroup

	mu      sync.Mutex
	targets map[string]*vfTarget
	routers []*Router
	fronts  []*vfFront
	raws    map[string]*vfRawTarget
	sched   *vfSched
	holds   map[string]chan struct{}
	probeBarrier atomic.Bool
	probeArrived atomic.Int32
	probeGen     atomic.Uint32
	maxIvl  time.Duration
	maxWait time.Duration

	logMu sync.Mutex
	logs  []vfLogRec

	probeTransport *http.Transport

	tearing        atomic.Bool
	proxyWriteLag  time.Duration // applied to connections the proxy opens to targets
	reqBodyClosed  atomic.Bool   // the inbound request body was read after net/http had closed it
	savedTmp       string
	closed         bool
}

func newVFWorld(t *testing.T) *vfWorld {
	w := &vfWorld{t: t, net: newVFNet(), epoch: time.Now(), closeCh: make(chan struct{}),
		targets: map[string]*vfTarget{}, holds: map[string]chan struct{}{}, maxIvl: time.Second}
	dir, err := os.MkdirTemp(os.Getenv("VF_SCRATCH"), "case-")
	if err != nil {
		panic(err)
	}
	w.dir = dir
	os.Mkdir(dir+"/tmp", 0o755)
	w.savedTmp = os.Getenv("TMPDIR")
	os.Setenv("TMPDIR", dir+"/tmp")

	vfInstallGlobals()
	w.probeTransport = &http.Transport{
		DialContext: func(ctx context.Context, network, addr string) (net.Conn, error) {
			c, err := w.net.DialFrom(ctx, vfProbeClientIP, addr)
			if err != nil {
				return nil, err
			}
			return c, nil
		},
		DisableKeepAlives: true,
	}
	vfCurSched.Store(nil)
	vfCurWorld.Store(w)
	return w
}

func (w *vfWorld) now() time.Duration { return time.Since(w.epoch) }

func (w *vfWorld) statePath(name string) string { return w.dir + "/" + name + ".state" }

func (w *vfWorld) newRouter(name string) *Router {
	r := vfNewRouter(w.statePath(name))
	w.mu.Lock()
	w.routers = append(w.routers, r)
	w.mu.Unlock()
	return r
}

func (w *vfWorld) adopt(r *Router) {
	w.mu.Lock()
	w.routers = append(w.routers, r)
	w.mu.Unlock()
}

// noteInterval records probe intervals in use, so teardown knows how long to wait for leaked loops.
func (w *vfWorld) noteInterval(d time.Duration) {
	w.mu.Lock()
	if d > w.maxIvl {
		w.maxIvl = d
	}
	w.mu.Unlock()
}

// noteWait records the longest timer a request may legitimately be waiting on (max-pause), so
// teardown can let held requests expire.
func (w *vfWorld) noteWait(d time.Duration) {
	w.mu.Lock()
	if d > w.maxWait {
		w.maxWait = d
	}
	w.mu.Unlock()
}

func (w *vfWorld) spillFiles() []string {
	ents, _ := os.ReadDir(w.dir + "/tmp")
	var out []string
	for _, e := range ents {
		out = append(out, e.Name())
	}
	return out
}

// hold returns the named gate channel used by fake targets to keep a request open.
func (w *vfWorld) hold(name string) chan struct{} {
	w.mu.Lock()
	defer w.mu.Unlock()
	ch, ok := w.holds[name]
	if !ok {
		ch = make(chan struct{})
		w.holds[name] = ch
	}
	return ch
}

func (w *vfWorld) release(name string) {
	ch := w.hold(name)
	select {
	case <-ch:
	default:
		close(ch)
	}
}

// Process-wide indirection: the package-level hooks (http.DefaultTransport for probes, verifDial for
// target connections, verifPointFn for program points) are set once per process and dispatch to the
// world / scheduler of the case in progress through atomics, so that no goroutine of the code under
// test ever races with the harness swapping a global.
var (
	vfCurWorld    atomic.Pointer[vfWorld]
	vfCurSched    atomic.Pointer[vfSched]
	vfGlobalsOnce sync.Once
)

type vfProbeRoundTripper struct{}

// RoundTrip carries probes over the current world's network; during teardown (or without a world) the
// calling probe loop ends itself: that is how leaked health-check loops are reaped.
func (vfProbeRoundTripper) RoundTrip(req *http.Request) (*http.Response, error) {
	w := vfCurWorld.Load()
	if w == nil || w.tearing.Load() {
		runtime.Goexit()
	}
	resp, err := w.probeTransport.RoundTrip(req)
	if w.probeBarrier.Load() {
		// probe answers that arrive at one virtual instant are handed to the proxy at the same real moment
		w.probeRendezvous()
	}
	return resp, err
}

// probeRendezvous: the first to arrive waits until nobody else has arrived for a few thousand iterations, then all go.
func (w *vfWorld) probeRendezvous() {
	gen := w.probeGen.Load()
	if w.probeArrived.Add(1) == 1 {
		last, stable := int32(1), 0
		for stable < 4000 {
			if a := w.probeArrived.Load(); a != last {
				last, stable = a, 0
			} else {
				stable++
			}
		}
		w.probeArrived.Store(0)
		w.probeGen.Add(1)
		return
	}
	for w.probeGen.Load() == gen {
	}
}

func vfInstallGlobals() {
	vfGlobalsOnce.Do(func() {
		slog.SetDefault(slog.New(&vfLogHandler{}))
		http.DefaultTransport = vfProbeRoundTripper{}
		verifDial = func(ctx context.Context, network, addr string) (net.Conn, error) {
			w := vfCurWorld.Load()
			if w == nil {
				return nil, errVFRefused
			}
			c, err := w.net.DialFrom(ctx, vfProxyClientIP, addr)
			if err != nil {
				return nil, err
			}
			c.writeLag = w.proxyWriteLag
			return c, nil
		}
		verifListenFn = func(network, addr string) (net.Listener, error) {
			w := vfCurWorld.Load()
			if w == nil {
				return nil, errVFRefused
			}
			return w.net.Listen(addr), nil
		}
		verifPointFn = func(name string, args ...any) {
			if s := vfCurSched.Load(); s != nil {
				s.point(name, args...)
			}
		}
	})
}

func (w *vfWorld) logsCopy() []vfLogRec {
	w.logMu.Lock()
	defer w.logMu.Unlock()
	return append([]vfLogRec(nil), w.logs...)
}

func (w *vfWorld) close() {
	if w.closed {
		return
	}
	w.closed = true
	if w.sched != nil {
		w.sched.stop() // nobody stays parked at a hook
	}
	vfCurSched.Store(nil)
	close(w.closeCh)
	w.mu.Lock()
	for _, ch := range w.holds {
		select {
		case <-ch:
		default:
			close(ch)
		}
	}
	routers := append([]*Router(nil), w.routers...)
	targets := make([]*vfTarget, 0, len(w.targets))
	for _, tg := range w.targets {
		targets = append(targets, tg)
	}
	w.mu.Unlock()

	// Stop probe loops the orderly way first.
	for _, r := range routers {
		func() {
			defer func() { recover() }()
			names := []string{}
			for n := range vfList(r) { // through the command interface: no dependence on the router's internals
				names = append(names, n)
			}
			for _, n := range names {
				vfRemove(r, n)
			}
		}()
	}
	// Whatever probe loop is still alive (a leak, or a load balancer that was never
	// installed) ends itself on its next attempt.
	w.tearing.Store(true)
	for _, tg := range targets {
		tg.srv.Close()
	}
	w.mu.Lock()
	fronts := append([]*vfFront(nil), w.fronts...)
	w.mu.Unlock()
	for _, f := range fronts {
		f.srv.Close()
		if f.tlsSrv != nil {
			f.tlsSrv.Close()
		}
	}
	w.net.CloseAll()
	w.probeTransport.CloseIdleConnections()
	time.Sleep(w.maxIvl + w.maxWait + time.Millisecond)
	synctest.Wait()
	w.wg.Wait()

	vfCurWorld.Store(nil)
	os.Setenv("TMPDIR", w.savedTmp)
	os.RemoveAll(w.dir)
}

// vfBubble runs fn in a fresh synctest bubble with a fresh world and tears the world down.
// Panics inside fn are caught inside the bubble (so that teardown still happens) and re-raised outside.
func vfBubble(t *testing.T, fn func(w *vfWorld)) {
	var caught any
	var stack []byte
	synctest.Test(t, func(t *testing.T) {
		w := newVFWorld(t)
		defer w.close()
		defer func() {
			if r := recover(); r != nil {
				caught = r
				stack = debug.Stack()
			}
		}()
		fn(w)
	})
	if os.Getenv("VF_DEBUG") != "" {
		fmt.Fprintf(os.Stderr, "VF-DEBUG bubble returned caught=%v failed=%v\n", caught != nil, t.Failed())
	}
	if caught != nil {
		panic(fmt.Sprintf("%v\n%s", caught, stack))
	}
}

// ---------------------------------------------------------------- fake targets

type vfProbeStep struct {
	Kind    string `json:"k"`            // ok | status | refuse | slow | stall
	Status  int    `json:"s,omitempty"`  // for status / ok (default 200)
	DelayMs int    `json:"d,omitempty"`  // for slow: answer (with Status or 200) after this delay
}

type vfProbeRec struct {
	At      time.Duration // arrival (or dial instant when refused)
	Done    time.Duration // answer sent; -1 if never
	Status  int           // 0 = refused / never answered
	Refused bool
	Path    string        // request URI of the probe (empty when refused)
}

type vfReqRec struct {
	ID        string
	Target    string
	Method    string
	URI       string
	Arrived   time.Duration
	Finished  time.Duration // -1 while running
	Cancelled bool          // context ended before the handler finished naturally
	Upgraded  bool
	Header    http.Header
	BodyHash  string
	BodyLen   int
	Host      string
}

type vfTarget struct {
	name       string
	w          *vfWorld
	l          *vfListener
	srv        *http.Server
	healthPath string

	mu           sync.Mutex
	probeScript  []vfProbeStep
	probeIdx     int
	probeDefault vfProbeStep
	probes       []*vfProbeRec
	reqs         []*vfReqRec
	down         bool
}

// target returns the fake target listening on name (e.g. "ta1:80"), creating it if needed.
func (w *vfWorld) target(name string) *vfTarget {
	w.mu.Lock()
	defer w.mu.Unlock()
	if tg, ok := w.targets[name]; ok {
		return tg
	}
	addr := name
	if _, _, err := net.SplitHostPort(addr); err != nil {
		addr += ":80"
	}
	tg := &vfTarget{name: name, w: w, healthPath: DefaultHealthCheckPath, probeDefault: vfProbeStep{Kind: "ok"}}
	tg.l = w.net.Listen(addr)
	tg.l.refuseIP = tg.refuseDial
	tg.srv = &http.Server{Handler: tg, ErrorLog: nil}
	w.targets[name] = tg
	go tg.srv.Serve(&vfRefusingListener{tg: tg})
	return tg
}

// vfRefusingListener lets the target refuse a connection at accept time according to its
// script; the dialer sees a reset/EOF before any byte, i.e. an unreachable target. A true
// "connection refused" is produced in dialHook below.
type vfRefusingListener struct{ tg *vfTarget }

func (l *vfRefusingListener) Accept() (net.Conn, error) { return l.tg.l.Accept() }
func (l *vfRefusingListener) Close() error              { return l.tg.l.Close() }
func (l *vfRefusingListener) Addr() net.Addr            { return l.tg.l.Addr() }

func (tg *vfTarget) setProbeScript(steps []vfProbeStep, def vfProbeStep) {
	tg.mu.Lock()
	tg.probeScript = steps
	tg.probeIdx = 0
	tg.probeDefault = def
	tg.mu.Unlock()
}

func (tg *vfTarget) nextProbeStepLocked(consume bool) vfProbeStep {
	if tg.probeIdx < len(tg.probeScript) {
		s := tg.probeScript[tg.probeIdx]
		if consume {
			tg.probeIdx++
		}
		return s
	}
	return tg.probeDefault
}

// refuseDial is consulted for every dial to the target.
func (tg *vfTarget) refuseDial(clientIP string) bool {
	tg.mu.Lock()
	defer tg.mu.Unlock()
	if tg.down {
		if clientIP == vfProbeClientIP {
			tg.probes = append(tg.probes, &vfProbeRec{At: tg.w.now(), Done: -1, Refused: true})
		}
		return true
	}
	if clientIP != vfProbeClientIP {
		return false
	}
	s := tg.nextProbeStepLocked(false)
	if s.Kind == "refuse" {
		tg.nextProbeStepLocked(true)
		tg.probes = append(tg.probes, &vfProbeRec{At: tg.w.now(), Done: -1, Refused: true})
		return true
	}
	return false
}

func (tg *vfTarget) setDown(down bool) {
	tg.mu.Lock()
	tg.down = down
	tg.mu.Unlock()
}

func (tg *vfTarget) probeLog() []vfProbeRec {
	tg.mu.Lock()
	defer tg.mu.Unlock()
	out := make([]vfProbeRec, len(tg.probes))
	for i, p := range tg.probes {
		out[i] = *p
	}
	return out
}

func (tg *vfTarget) reqLog() []vfReqRec {
	tg.mu.Lock()
	defer tg.mu.Unlock()
	out := make([]vfReqRec, len(tg.reqs))
	for i, p := range tg.reqs {
		out[i] = *p
	}
	return out
}

// firstOK returns the instant the target first sent a 2xx probe answer, or -1.
func (tg *vfTarget) firstOK() time.Duration {
	for _, p := range tg.probeLog() {
		if p.Status >= 200 && p.Status <= 299 && p.Done >= 0 {
			return p.Done
		}
	}
	return -1
}

func (tg *vfTarget) wait(ctx context.Context, d time.Duration) bool {
	if d <= 0 {
		return true
	}
	tm := time.NewTimer(d)
	defer tm.Stop()
	select {
	case <-tm.C:
		return true
	case <-ctx.Done():
		return false
	case <-tg.w.closeCh:
		return false
	}
}

// vfCtl is the per-request control block a client passes to the fake target in the X-Vf header.
type vfCtl struct {
	ID      string `json:"id,omitempty"`
	Hold    string `json:"hold,omitempty"`   // wait for the named gate before answering
	DurMs   int    `json:"dur,omitempty"`    // natural service time
	Status  int    `json:"status,omitempty"` // default 200
	Size    int    `json:"size,omitempty"`   // response body of this many bytes instead of the echo
	Upgrade bool   `json:"up,omitempty"`     // hijack and tunnel (echo) until closed
	SSE     bool   `json:"sse,omitempty"`    // event stream: one event, then hold/dur, then a second
	NoCT    bool   `json:"noct,omitempty"`
	Fill    string `json:"fill,omitempty"` // with Size: the byte the body is made of (default "x")
	Parts   int    `json:"parts,omitempty"` // with Size: written in this many flushed parts
	Abort   bool   `json:"abort,omitempty"` // drop the connection instead of answering
	UpDelayMs int  `json:"updelay,omitempty"` // with Upgrade: the 101 is sent this long after the request arrived
}

func (c vfCtl) header() string {
	b, _ := json.Marshal(c)
	return string(b)
}

type vfEcho struct {
	Target   string      `json:"target"`
	ID       string      `json:"id"`
	Method   string      `json:"method"`
	URI      string      `json:"uri"`
	Host     string      `json:"host"`
	Header   http.Header `json:"header"`
	BodyHash string      `json:"body_hash"`
	BodyLen  int         `json:"body_len"`
}

func (tg *vfTarget) ServeHTTP(rw http.ResponseWriter, r *http.Request) {
	now := tg.w.now()
	if r.Method == http.MethodGet && r.Header.Get("User-Agent") == healthCheckUserAgent {
		tg.mu.Lock()
		step := tg.nextProbeStepLocked(true)
		rec := &vfProbeRec{At: now, Done: -1, Path: r.URL.RequestURI()}
		tg.probes = append(tg.probes, rec)
		tg.mu.Unlock()
		status := step.Status
		switch step.Kind {
		case "ok", "":
			if status == 0 {
				status = 200
			}
		case "status":
		case "refuse": // two probers raced for one scripted refusal; answer as a failure
			status = 503
		case "slow":
			if status == 0 {
				status = 200
			}
			if !tg.wait(r.Context(), time.Duration(step.DelayMs)*time.Millisecond) {
				return
			}
		case "stall":
			select {
			case <-r.Context().Done():
			case <-tg.w.closeCh:
			}
			return
		case "status-stall": // a complete header block with the status, then a body that never ends
			tg.mu.Lock()
			rec.Done = tg.w.now()
			rec.Status = status
			tg.mu.Unlock()
			rw.Header().Set("Content-Length", "1000")
			rw.WriteHeader(status)
			rw.(http.Flusher).Flush()
			select {
			case <-r.Context().Done():
			case <-tg.w.closeCh:
			}
			return
		}
		tg.mu.Lock()
		rec.Done = tg.w.now()
		rec.Status = status
		tg.mu.Unlock()
		rw.WriteHeader(status)
		return
	}

	var ctl vfCtl
	if h := r.Header.Get("X-Vf"); h != "" {
		json.Unmarshal([]byte(h), &ctl)
	}
	body, _ := io.ReadAll(r.Body)
	sum := sha256.Sum256(body)
	rec := &vfReqRec{ID: ctl.ID, Target: tg.name, Method: r.Method, URI: r.RequestURI, Arrived: now, Finished: -1,
		Header: r.Header.Clone(), BodyHash: hex.EncodeToString(sum[:8]), BodyLen: len(body), Host: r.Host}
	tg.mu.Lock()
	tg.reqs = append(tg.reqs, rec)
	tg.mu.Unlock()
	finish := func(cancelled bool) {
		tg.mu.Lock()
		rec.Finished = tg.w.now()
		rec.Cancelled = cancelled
		tg.mu.Unlock()
	}

	if ctl.Upgrade {
		if ctl.UpDelayMs > 0 && !tg.wait(r.Context(), time.Duration(ctl.UpDelayMs)*time.Millisecond) {
			finish(true)
			return
		}
		hj, ok := rw.(http.Hijacker)
		if !ok {
			finish(false)
			return
		}
		conn, brw, err := hj.Hijack()
		if err != nil {
			finish(false)
			return
		}
		tg.mu.Lock()
		rec.Upgraded = true
		tg.mu.Unlock()
		brw.WriteString("HTTP/1.1 101 Switching Protocols\r\nConnection: Upgrade\r\nUpgrade: vf-echo\r\nX-Vf-Target: " + tg.name + "\r\n\r\n")
		brw.Flush()
		go func() {
			select {
			case <-tg.w.closeCh:
				conn.Close()
			case <-r.Context().Done():
			}
		}()
		buf := make([]byte, 1024)
		for {
			n, err := brw.Read(buf)
			if n > 0 {
				conn.Write(buf[:n])
			}
			if err != nil {
				break
			}
		}
		conn.Close()
		finish(true)
		return
	}

	waitAll := func() bool {
		if ctl.Hold != "" {
			select {
			case <-tg.w.hold(ctl.Hold):
			case <-r.Context().Done():
				return false
			}
		}
		return tg.wait(r.Context(), time.Duration(ctl.DurMs)*time.Millisecond)
	}

	status := ctl.Status
	if status == 0 {
		status = 200
	}
	rw.Header().Set("X-Vf-Target", tg.name)
	rw.Header().Set("X-Vf-Id", ctl.ID)
	if ctl.SSE {
		rw.Header().Set("Content-Type", "text/event-stream")
		rw.WriteHeader(status)
		fmt.Fprintf(rw, "data: first %s\n\n", tg.name)
		rw.(http.Flusher).Flush()
		if !waitAll() {
			finish(true)
			return
		}
		fmt.Fprintf(rw, "data: second\n\n")
		finish(false)
		return
	}
	if !waitAll() {
		finish(true)
		return
	}
	if ctl.Abort {
		finish(false)
		panic(http.ErrAbortHandler)
	}
	if !ctl.NoCT {
		rw.Header().Set("Content-Type", "application/json")
	}
	var out []byte
	if ctl.Size > 0 {
		fill := "x"
		if ctl.Fill != "" {
			fill = ctl.Fill[:1]
		}
		out = bytes.Repeat([]byte(fill), ctl.Size)
	} else {
		out, _ = json.Marshal(vfEcho{Target: tg.name, ID: ctl.ID, Method: r.Method, URI: r.RequestURI, Host: r.Host,
			Header: r.Header, BodyHash: rec.BodyHash, BodyLen: len(body)})
	}
	rw.Header().Set("Content-Length", strconv.Itoa(len(out)))
	rw.WriteHeader(status)
	if ctl.Parts > 1 {
		step := len(out)/ctl.Parts + 1
		for off := 0; off < len(out); off += step {
			rw.Write(out[off:min(off+step, len(out))])
			rw.(http.Flusher).Flush()
			runtime.Gosched()
		}
	} else {
		rw.Write(out)
	}
	finish(false)
}

// ---------------------------------------------------------------- clients

type vfResp struct {
	Status   int
	Header   http.Header
	Body     []byte
	Target   string // X-Vf-Target of the answer ("" when the proxy answered itself)
	Start    time.Duration
	End      time.Duration
	Panicked string
}

func (r *vfResp) String() string {
	if r == nil {
		return "<pending>"
	}
	b := string(r.Body)
	if len(b) > 80 {
		b = b[:80] + "…"
	}
	return fmt.Sprintf("%d target=%q [%v..%v] body=%q", r.Status, r.Target, r.Start, r.End, b)
}

// do sends req to handler by direct call (no network on the client side).
func (w *vfWorld) do(h http.Handler, req *http.Request) *vfResp {
	rec := httptest.NewRecorder()
	out := &vfResp{Start: w.now()}
	func() {
		defer func() {
			if r := recover(); r != nil {
				if r == http.ErrAbortHandler {
					out.Panicked = "abort"
					return
				}
				out.Panicked = fmt.Sprint(r)
			}
		}()
		h.ServeHTTP(rec, req)
	}()
	out.End = w.now()
	out.Status = rec.Code
	out.Header = rec.Header().Clone()
	out.Body = rec.Body.Bytes()
	out.Target = rec.Header().Get("X-Vf-Target")
	return out
}

// vfPending is a request running in its own goroutine.
type vfPending struct {
	done chan struct{}
	resp *vfResp
}

func (p *vfPending) finished() bool {
	select {
	case <-p.done:
		return true
	default:
		return false
	}
}

func (w *vfWorld) goDo(h http.Handler, req *http.Request) *vfPending {
	p := &vfPending{done: make(chan struct{})}
	w.wg.Add(1)
	go func() {
		defer w.wg.Done()
		defer close(p.done)
		p.resp = w.do(h, req)
	}()
	return p
}

func vfNewRequest(method, host, uri string, ctl *vfCtl, body []byte) *http.Request {
	var rd io.Reader
	if body != nil {
		rd = bytes.NewReader(body)
	}
	req := httptest.NewRequest(method, "http://placeholder"+uri, rd)
	req.Host = host
	req.RemoteAddr = "192.0.2.7:5555"
	if ctl != nil {
		req.Header.Set("X-Vf", ctl.header())
	}
	return req
}

// ---------------------------------------------------------------- commands

type vfCmdResult struct {
	Err      error
	Start    time.Duration
	End      time.Duration
	Panicked string
}

type vfPendingCmd struct {
	done chan struct{}
	res  vfCmdResult
}

func (p *vfPendingCmd) finished() bool {
	select {
	case <-p.done:
		return true
	default:
		return false
	}
}

func (w *vfWorld) runCmd(fn func() error) (res vfCmdResult) {
	res.Start = w.now()
	func() {
		defer func() {
			if r := recover(); r != nil {
				res.Panicked = fmt.Sprint(r)
			}
		}()
		res.Err = fn()
	}()
	res.End = w.now()
	return res
}

func (w *vfWorld) goCmd(fn func() error) *vfPendingCmd {
	p := &vfPendingCmd{done: make(chan struct{})}
	w.wg.Add(1)
	go func() {
		defer w.wg.Done()
		defer close(p.done)
		p.res = w.runCmd(fn)
	}()
	return p
}

// ---------------------------------------------------------------- misc helpers

func vfSortedKeys[V any](m map[string]V) []string {
	ks := make([]string, 0, len(m))
	for k := range m {
		ks = append(ks, k)
	}
	sort.Strings(ks)
	return ks
}

func vfSortedKeysFunc[K comparable, V any](m map[K]V, less func(a, b K) bool) []K {
	ks := make([]K, 0, len(m))
	for k := range m {
		ks = append(ks, k)
	}
	sort.Slice(ks, func(i, j int) bool { return less(ks[i], ks[j]) })
	return ks
}

// vfRealWait waits for done for at most d of REAL time (the bubble's clock stands still while a goroutine is
// runnable or queued on a mutex; gettimeofday is not part of the bubble).
func vfRealWait(done <-chan struct{}, d time.Duration) bool {
	real := func() time.Duration {
		var tv syscall.Timeval
		syscall.Gettimeofday(&tv)
		return time.Duration(tv.Sec)*time.Second + time.Duration(tv.Usec)*time.Microsecond
	}
	start := real()
	for {
		select {
		case <-done:
			return true
		default:
		}
		if real()-start > d {
			return false
		}
		runtime.Gosched()
	}
}

func vfMs(ms int) time.Duration { return time.Duration(ms) * time.Millisecond }

func vfErrClass(err error) string {
	if err == nil {
		return "ok"
	}
	s := err.Error()
	switch {
	case strings.Contains(s, ErrorServiceNotFound.Error()):
		return "not-found"
	case strings.Contains(s, ErrorTargetFailedToBecomeHealthy.Error()):
		return "unhealthy"
	case strings.Contains(s, ErrorHostInUse.Error()):
		return "host-in-use"
	case strings.Contains(s, ErrorInvalidHostPattern.Error()):
		return "bad-target"
	case strings.Contains(s, ErrorRolloutTargetNotSet.Error()):
		return "no-rollout"
	case strings.Contains(s, ErrorUnableToLoadErrorPages.Error()):
		return "error-pages"
	case strings.Contains(s, ErrorAutomaticTLSDoesNotSupportWildcards.Error()):
		return "tls-wildcard"
	case strings.Contains(s, ErrorUnableToLoadCertificate.Error()):
		return "certificate"
	}
	return "other:" + s
}
