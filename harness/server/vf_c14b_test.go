//go:build verif && go1.25

package server

import (
	"bufio"
	"bytes"
	"context"
	"fmt"
	"net/http"
	"strings"
	"testing"
	"testing/synctest"
	"time"

	"pgregory.net/rapid"
)

type c14Plan struct {
	BufReq      bool   `json:"buf_req"`
	BufResp     bool   `json:"buf_resp"`
	MaxMem      int64  `json:"max_mem"`
	MaxReq      int64  `json:"max_req"`
	MaxResp     int64  `json:"max_resp"`
	ReqChunks   []int  `json:"req_chunks"`
	ReqPauseMs  []int  `json:"req_pause_ms"` // pause before each chunk
	RespParts   []int  `json:"resp_parts"`
	RespPauseMs []int  `json:"resp_pause_ms"` // pause before each part (after the head)
	Ending      string `json:"ending"`        // success | sse | upgrade | target-reset-before-head | target-reset-mid-body | client-abort-upload
	Status      int    `json:"status,omitempty"`  // the target's final status (0 = 200)
	Interim     int    `json:"interim,omitempty"` // an interim response the target sends first (100, 102, 103; 0 = none)
	Prior       int    `json:"prior,omitempty"`   // 1 = an earlier deploy with other buffering options and limits; 2 = that plus a rollout deploy in between
	Then        string `json:"then,omitempty"`    // after the deploy under test: "restart" (the request meets the restored proxy) | "rollout" (rollout targets deployed now, the request carries the cookie)
}

func c14Gen(t *rapid.T) c14Plan {
	p := c14Plan{}
	p.BufReq = rapid.IntRange(0, 3).Draw(t, "buf-req") > 0
	p.BufResp = rapid.IntRange(0, 3).Draw(t, "buf-resp") > 0
	p.MaxMem = rapid.SampledFrom([]int64{0, 1, 16, 100, 1000}).Draw(t, "max-mem")
	genParts := func(label string) ([]int, []int, int) {
		n := rapid.IntRange(0, 4).Draw(t, label+"-n")
		var parts, pauses []int
		total := 0
		for i := 0; i < n; i++ {
			c := rapid.SampledFrom([]int{1, 15, 16, 17, 99, 100, 101, 999, 1000, 1001, 5000}).Draw(t, label+"-size")
			parts = append(parts, c)
			pauses = append(pauses, rapid.SampledFrom([]int{0, 0, 10, 200}).Draw(t, label+"-pause"))
			total += c
		}
		return parts, pauses, total
	}
	var reqTotal, respTotal int
	p.ReqChunks, p.ReqPauseMs, reqTotal = genParts("req")
	p.RespParts, p.RespPauseMs, respTotal = genParts("resp")
	lim := func(total int, label string) int64 {
		switch rapid.IntRange(0, 6).Draw(t, label) {
		case 0:
			return int64(max(total-1, 1))
		case 1:
			return int64(max(total, 1))
		case 2:
			return int64(total + 1)
		case 3, 4: // an absolute limit: an early chunk may overflow and a later, smaller one fit again
			return rapid.SampledFrom([]int64{1, 16, 100, 1000}).Draw(t, label+"-abs")
		}
		return 0
	}
	if p.BufReq {
		p.MaxReq = lim(reqTotal, "max-req")
	}
	if p.BufResp {
		p.MaxResp = lim(respTotal, "max-resp")
	}
	p.Ending = rapid.SampledFrom([]string{"success", "success", "success", "sse", "upgrade", "target-reset-before-head", "target-reset-mid-body", "client-abort-upload"}).Draw(t, "ending")
	if rapid.IntRange(0, 2).Draw(t, "status?") == 0 {
		p.Status = rapid.SampledFrom([]int{201, 203, 404, 422, 500, 503}).Draw(t, "status")
	}
	p.Prior = rapid.SampledFrom([]int{0, 0, 0, 1, 2}).Draw(t, "prior")
	if p.Ending != "upgrade" {
		p.Then = rapid.SampledFrom([]string{"", "", "", "restart", "rollout"}).Draw(t, "then")
	}
	if rapid.IntRange(0, 3).Draw(t, "interim?") == 0 {
		p.Interim = rapid.SampledFrom([]int{100, 102, 103}).Draw(t, "interim")
	}
	return p
}

func c14Run(t *testing.T, p c14Plan) (res vfResult) {
	vfBubble(t, func(w *vfWorld) {
		rt := w.rawTarget("raw0:80")
		w.target("ta0:80") // handler target, used for the upgrade ending
		r := w.newRouter("r")
		to := vfFastTargetOptions()
		to.BufferRequests, to.BufferResponses = p.BufReq, p.BufResp
		to.MaxMemoryBufferSize, to.MaxRequestBodySize, to.MaxResponseBodySize = p.MaxMem, p.MaxReq, p.MaxResp
		tname := "raw0:80"
		if p.Ending == "upgrade" {
			tname = "ta0:80"
		}
		opts := ServiceOptions{TLSRedirect: true}
		opts.Normalize()
		if p.Prior > 0 {
			w.target("old0:80")
			old := to
			old.BufferRequests, old.BufferResponses = !to.BufferRequests, !to.BufferResponses
			old.MaxMemoryBufferSize, old.MaxRequestBodySize, old.MaxResponseBodySize = 7, 3, 3
			if err := vfDeploy(r, "svc", []string{"old0:80"}, opts, old, 5*time.Second, time.Second); err != nil {
				res.failf("setup-failed", "prior deploy: %v", err)
				return
			}
			if p.Prior == 2 {
				w.target("oldr0:80")
				if err := vfRolloutDeploy(r, "svc", []string{"oldr0:80"}, 5*time.Second, time.Second); err != nil {
					res.failf("setup-failed", "prior rollout deploy: %v", err)
					return
				}
			}
			res.label(fmt.Sprintf("redeploy-with-other-options:%d", p.Prior))
		}
		if err := vfDeploy(r, "svc", []string{tname}, opts, to, 5*time.Second, time.Second); err != nil {
			res.failf("setup-failed", "deploy: %v", err)
			return
		}
		synctest.Wait()
		cookie := ""
		switch p.Then {
		case "restart":
			nr := vfNewRouter(vfPathOf(r))
			if err := nr.RestoreLastSavedState(); err != nil {
				res.failf("restore-failed", "%v", err)
				return
			}
			vfRemove(r, "svc")
			w.adopt(nr)
			r = nr
			synctest.Wait()
			res.label("then:restart")
		case "rollout":
			if err := vfRolloutDeploy(r, "svc", []string{tname}, 5*time.Second, time.Second); err != nil {
				res.failf("setup-failed", "rollout deploy: %v", err)
				return
			}
			if err := vfRolloutSet(r, "svc", 100, nil); err != nil {
				res.failf("setup-failed", "rollout set: %v", err)
				return
			}
			cookie = "Cookie: " + RolloutCookieName + "=v\r\n"
			synctest.Wait()
			res.label("then:rollout")
		}
		f := w.front(r, "front:80")
		desc := fmt.Sprintf("%+v", p)
		finish := func() {
			time.Sleep(time.Second)
			synctest.Wait()
			if files := w.spillFiles(); len(files) != 0 {
				res.failf("spill-left:"+p.Ending, "spill files remain after the request ended (%s): %v; %s", p.Ending, files, desc)
			}
			res.label("ending:" + p.Ending)
		}

		if p.Ending == "upgrade" {
			conn, err := w.net.DialFrom(context.Background(), c13ClientIP, "front:80")
			if err != nil {
				res.failf("harness", "dial: %v", err)
				return
			}
			ctl := vfCtl{ID: "up", Upgrade: true}
			fmt.Fprintf(conn, "GET /ws HTTP/1.1\r\nHost: h.test\r\nConnection: Upgrade\r\nUpgrade: vf-echo\r\nX-Vf: %s\r\n\r\n", ctl.header())
			br := bufio.NewReader(conn)
			resp, err := http.ReadResponse(br, &http.Request{Method: "GET"})
			if err != nil || resp.StatusCode != 101 {
				res.failf("upgrade-not-tunnelled", "upgrade through buffering middlewares: err=%v resp=%v; %s", err, resp, desc)
				conn.Close()
				return
			}
			for _, msg := range []string{"ping", strings.Repeat("z", 3000)} {
				conn.Write([]byte(msg))
				got := make([]byte, len(msg))
				conn.SetReadDeadline(time.Now().Add(time.Second))
				if _, err := readFull(br, got); err != nil || string(got) != msg {
					res.failf("upgrade-not-tunnelled", "upgraded connection did not echo %d bytes at once: err=%v; %s", len(msg), err, desc)
					conn.Close()
					return
				}
			}
			conn.Close()
			res.NonTrivial = true
			finish()
			return
		}

		// ---- request
		reqTotal := 0
		for _, c := range p.ReqChunks {
			reqTotal += c
		}
		body := c13Body(reqTotal, 1)
		var chunks [][]byte
		pauses := []int{0}
		chunks = append(chunks, []byte(fmt.Sprintf("POST /upload HTTP/1.1\r\nHost: h.test\r\n%sContent-Length: %d\r\n\r\n", cookie, reqTotal)))
		off := 0
		lastChunkAt := time.Duration(0)
		for i, c := range p.ReqChunks {
			chunks = append(chunks, body[off:off+c])
			pauses = append(pauses, p.ReqPauseMs[i])
			lastChunkAt += vfMs(p.ReqPauseMs[i])
			off += c
		}
		// ---- response script
		respTotal := 0
		for _, c := range p.RespParts {
			respTotal += c
		}
		rbody := c13Body(respTotal, 2)
		ct := "application/octet-stream"
		if p.Ending == "sse" {
			ct = "text/event-stream; charset=utf-8"
		}
		var script []vfRawStep
		respDur := time.Duration(0)
		wantStatus := 200
		if p.Status != 0 {
			wantStatus = p.Status
		}
		switch p.Ending {
		case "target-reset-before-head":
			script = []vfRawStep{{Kind: "reset"}}
		default:
			if p.Interim > 0 {
				script = append(script, vfRawStep{Kind: "bytes", Data: fmt.Sprintf("HTTP/1.1 %d %s\r\n\r\n", p.Interim, http.StatusText(p.Interim))}, vfRawStep{Kind: "delay", DelayMs: 2})
				respDur += 2 * time.Millisecond
			}
			script = append(script, vfRawStep{Kind: "bytes", Data: fmt.Sprintf("HTTP/1.1 %d %s\r\nContent-Type: %s\r\nContent-Length: %d\r\nX-Vf-Target: raw\r\n\r\n", wantStatus, http.StatusText(wantStatus), ct, respTotal)})
			o := 0
			for i, c := range p.RespParts {
				if p.RespPauseMs[i] > 0 {
					script = append(script, vfRawStep{Kind: "delay", DelayMs: p.RespPauseMs[i]})
					respDur += vfMs(p.RespPauseMs[i])
				}
				if p.Ending == "target-reset-mid-body" && i == len(p.RespParts)-1 {
					script = append(script, vfRawStep{Kind: "reset"})
					break
				}
				script = append(script, vfRawStep{Kind: "bytes", Data: string(rbody[o : o+c])})
				o += c
			}
			if p.Ending == "target-reset-mid-body" && len(p.RespParts) == 0 {
				p.Ending = "success"
			}
		}
		rt.setScripts([][]vfRawStep{script}, nil)

		abortAfter := 0
		if p.Ending == "client-abort-upload" {
			if reqTotal < 2 {
				p.Ending = "success"
			} else {
				abortAfter = len(chunks[0]) + reqTotal/2
			}
		}
		start := w.now()
		done := make(chan *vfRawResp, 1)
		go func() { done <- f.rawExchange(c13ClientIP, chunks, pauses, "POST", abortAfter) }()

		// observe the spill file in the middle of the longest upload pause
		if p.BufReq && abortAfter == 0 {
			best, at, sofar, sent := 0, time.Duration(0), 0, 0
			tt := time.Duration(0)
			for i, c := range p.ReqChunks {
				if p.ReqPauseMs[i] > best {
					best, at, sofar = p.ReqPauseMs[i], tt+vfMs(p.ReqPauseMs[i])/2, sent
				}
				tt += vfMs(p.ReqPauseMs[i])
				sent += c
			}
			overflowSoFar := p.MaxReq > 0 && int64(sofar) > p.MaxReq
			if best > 0 && !overflowSoFar {
				time.Sleep(at)
				synctest.Wait()
				files := w.spillFiles()
				if want := int64(sofar) > p.MaxMem; (len(files) > 0) != want {
					res.failf("spill-presence", "request buffering: %d body bytes received so far, buffer-memory %d: spill file expected=%v, found %v; %s", sofar, p.MaxMem, want, files, desc)
					<-done
					return
				}
				res.label("spill-observed-mid-upload")
			}
		}
		resp := <-done
		synctest.Wait()
		seen := rt.seenCopy()
		reqOver := p.BufReq && p.MaxReq > 0 && int64(reqTotal) > p.MaxReq
		respOver := p.BufResp && p.MaxResp > 0 && int64(respTotal) > p.MaxResp

		switch {
		case p.Ending == "client-abort-upload":
			if p.BufReq && len(seen) != 0 {
				res.failf("contacted-before-complete", "client aborted mid-upload with request buffering, yet the target was contacted; %s", desc)
				return
			}
		case reqOver:
			if resp.Resp == nil || resp.Resp.StatusCode != http.StatusRequestEntityTooLarge {
				res.failf("no-413", "request body %d > max-request-body %d: client got %v (err %v), want 413; %s", reqTotal, p.MaxReq, c13Status(resp), resp.HeadErr, desc)
				return
			}
			if len(seen) != 0 {
				res.failf("413-but-contacted", "413 answered but the target was contacted; %s", desc)
				return
			}
			res.label("413")
		default:
			if len(seen) != 1 {
				res.failf("not-forwarded", "target saw %d requests, client got %v (err %v); %s", len(seen), c13Status(resp), resp.HeadErr, desc)
				return
			}
			if !bytes.Equal(seen[0].Body, body) {
				res.failf("request-body", "target received %d body bytes, client sent %d (equal=%v); %s", len(seen[0].Body), len(body), bytes.Equal(seen[0].Body, body), desc)
				return
			}
			if p.BufReq && seen[0].At < start+lastChunkAt {
				res.failf("contacted-before-complete", "request buffering: target contacted at %v, the client's last body chunk was sent at %v; %s", seen[0].At, start+lastChunkAt, desc)
				return
			}
			targetDone := seen[0].BodyAt + vfMs(vfRawThinkMs) + respDur
			switch {
			case p.Ending == "target-reset-before-head":
				if resp.Resp == nil || resp.Resp.StatusCode != http.StatusBadGateway {
					res.failf("no-502", "target reset before any response: client got %v (err %v), want 502; %s", c13Status(resp), resp.HeadErr, desc)
					return
				}
			case p.Ending == "target-reset-mid-body":
				if resp.complete() && len(resp.Body) == respTotal {
					res.failf("truncated-presented-complete", "target reset mid-body, yet the client received a complete %d-byte response; %s", respTotal, desc)
					return
				}
			case respOver && p.Ending != "sse":
				if resp.Resp == nil || resp.Resp.StatusCode != http.StatusInternalServerError {
					res.failf("no-500", "response body %d > max-response-body %d: client got %v (err %v), want 500; %s", respTotal, p.MaxResp, c13Status(resp), resp.HeadErr, desc)
					return
				}
				if respTotal > 40 && bytes.Contains(resp.Raw, rbody[:40]) {
					res.failf("500-with-body", "oversize response answered 500 but target body bytes reached the client; %s", desc)
					return
				}
				res.label("500")
			default:
				if !resp.complete() || resp.Resp.StatusCode != wantStatus || !bytes.Equal(resp.Body, rbody) {
					res.failf("response-body", "client got status %v, %d body bytes (err %v / %v), target sent %d with %d (equal=%v); %s",
						c13Status(resp), len(resp.Body), resp.HeadErr, resp.BodyErr, wantStatus, len(rbody), bytes.Equal(resp.Body, rbody), desc)
					return
				}
				if p.Interim > 0 {
					res.label(fmt.Sprintf("interim-%d-before-final", p.Interim))
				}
				if wantStatus != 200 {
					res.label("final-status-not-200")
				}
				first := resp.FirstByte
				if p.Interim > 0 {
					first = resp.HeadAt // an interim response passes through at once; the final one is what is buffered
				}
				if p.BufResp && p.Ending != "sse" && first < targetDone {
					res.failf("response-not-buffered", "response buffering: client saw the first byte of the final response at %v, the target finished at %v; %s", first, targetDone, desc)
					return
				}
				if p.Ending == "sse" && respDur > 0 && len(p.RespParts) > 1 && p.RespPauseMs[0] == 0 && !(resp.FirstByte < targetDone) {
					res.failf("event-stream-buffered", "event stream: client saw its first byte at %v, not before the target finished at %v; %s", resp.FirstByte, targetDone, desc)
					return
				}
			}
		}
		crossing := false
		sofar := int64(0)
		for _, c := range p.ReqChunks {
			if p.BufReq && sofar < p.MaxMem && sofar+int64(c) > p.MaxMem {
				crossing = true
			}
			sofar += int64(c)
		}
		res.NonTrivial = crossing || p.Ending != "success" || reqOver || respOver
		if crossing {
			res.label("chunk-crosses-memory-limit")
		}
		finish()
	})
	return res
}

func readFull(br *bufio.Reader, p []byte) (int, error) {
	n := 0
	for n < len(p) {
		m, err := br.Read(p[n:])
		n += m
		if err != nil {
			return n, err
		}
	}
	return n, nil
}

func TestVF_C14(t *testing.T) {
	vfCheck(t, vfProp[c14Plan]{id: "C14", gen: c14Gen, run: c14Run})
}
