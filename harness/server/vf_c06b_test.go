//go:build verif && go1.25

package server

// C06 (b) — a fault while saving the state. After a generated history, the place the state file is written to
// is made unusable (its directory removed, a directory squatting on the temporary file's name, or a directory
// where the state file should be) and one more command is issued that the model accepts. Whatever the command
// reports must be true: if it reports an error, `list` and routing are as before it; if it reports success,
// they are as the model says after it. (The saved state itself cannot be compared: there is none.)

import (
	"fmt"
	"os"
	"path/filepath"
	"testing"
	"testing/synctest"

	"pgregory.net/rapid"
)

type c06bPlan struct {
	Setup []vfCmd `json:"setup"`
	Cmd   vfCmd   `json:"cmd"`
	Fault string  `json:"fault"` // dir-removed | tmp-is-a-directory | state-is-a-directory
}

func c06bGen(t *rapid.T) c06bPlan {
	m := newVFModel()
	p := c06bPlan{}
	cfg := vfGenCfg{Options: false, Pause: true}
	for i, n := 0, rapid.IntRange(1, 6).Draw(t, "nsetup"); i < n; i++ {
		p.Setup = append(p.Setup, vfGenOKCmd(t, m, cfg))
	}
	p.Cmd = vfGenOKCmd(t, m, cfg)
	p.Fault = rapid.SampledFrom([]string{"dir-removed", "tmp-is-a-directory", "state-is-a-directory"}).Draw(t, "fault")
	return p
}

func c06bRun(t *testing.T, p c06bPlan) (res vfResult) {
	vfBubble(t, func(w *vfWorld) {
		vfSetupWorldTargets(w)
		sd := filepath.Join(w.dir, "statedir")
		if err := os.Mkdir(sd, 0o755); err != nil {
			res.failf("harness", "%v", err)
			return
		}
		statePath := filepath.Join(sd, "r.state")
		r := vfNewRouter(statePath)
		w.adopt(r)
		m := newVFModel()
		for i, c := range p.Setup {
			want := m.apply(c)
			got := vfExec(w, r, c)
			if got.Panicked != "" || !vfClassOK(want, vfErrClass(got.Err)) {
				res.failf("setup-failed", "setup step %d %s: result %q panic=%q, model accepts %v", i, c, vfErrClass(got.Err), got.Panicked, want)
				return
			}
		}
		synctest.Wait()
		if !vfCheckList(r, m, &res, "before the fault") {
			return
		}
		switch p.Fault {
		case "dir-removed":
			os.RemoveAll(sd)
		case "tmp-is-a-directory":
			os.MkdirAll(statePath+".tmp/x", 0o755)
		case "state-is-a-directory":
			os.Remove(statePath)
			os.MkdirAll(statePath+"/x", 0o755)
		}
		before := m.clone()
		after := m.clone()
		want := after.apply(p.Cmd)
		got := vfExec(w, r, p.Cmd)
		synctest.Wait()
		ctx := fmt.Sprintf("state file unusable (%s), then %s -> %q", p.Fault, p.Cmd, vfErrClass(got.Err))
		if got.Panicked != "" {
			res.failf("panic", "%s: panicked: %s", ctx, got.Panicked)
			return
		}
		if got.Err == nil {
			if !vfClassOK(want, "ok") {
				res.failf("wrong-result", "%s: succeeded, model accepts %v", ctx, want)
				return
			}
			if !vfCheckList(r, after, &res, ctx+" (reported success)") || !vfCheckMatrix(w, r, after, &res, vfReqHosts, vfReqPaths, ctx+" (reported success)") {
				return
			}
			res.label("reported-success")
		} else {
			// an error was reported: nothing may have changed
			sub := vfResult{}
			if !vfCheckList(r, before, &sub, ctx) || !vfCheckMatrix(w, r, before, &sub, vfReqHosts, vfReqPaths, ctx) {
				res.failf("error-reported-but-applied", "%s: the command reported an error (%v), yet the configuration is not what it was before it: %s", ctx, got.Err, sub.Violation)
				return
			}
			res.label("reported-error")
		}
		res.NonTrivial = true
		res.label("fault:" + p.Fault)
		// the proxy keeps working once the place is usable again
		os.RemoveAll(statePath + ".tmp")
		os.RemoveAll(statePath)
		os.MkdirAll(sd, 0o755)
	})
	return res
}

func TestVF_C06_SaveFault(t *testing.T) {
	vfCheck(t, vfProp[c06bPlan]{id: "C06", gen: c06bGen, run: c06bRun})
}
