//go:build verif && go1.25

package server

// History layers (C13, C14, C15, C19): after any history of successful and failing commands, with restarts
// from the state file anywhere in it, what a service does with a request is decided by the options of its last
// successful deploy - judged against the model, one aspect per property:
//   C13  the request line and the forwarding headers the target sees
//   C14  the body limits (413 / 500) and the bodies delivered
//   C15  the response timeout (504 at the configured instant) and a dropped connection (502, custom page)
//   C19  the one access-log record per request, with the headers the operator asked for

import (
	"html"
	"encoding/json"
	"fmt"
	"os"
	"strings"
	"testing"
	"testing/synctest"
	"time"

	"pgregory.net/rapid"
)

type hist2Plan struct {
	H []vfCmd `json:"h"`
	// RestartAfter[i]: the proxy is restarted from its state file after command i
	RestartAfter []bool `json:"restart_after"`
}

func hist2Gen(t *rapid.T) hist2Plan {
	p := hist2Plan{}
	m := newVFModel()
	cfg := vfGenCfg{Options: true, TLS: true, Pause: true}
	n := rapid.IntRange(1, 14).Draw(t, "n")
	for i := 0; i < n; i++ {
		if rapid.IntRange(0, 5).Draw(t, "fail?") == 0 {
			p.H = append(p.H, vfGenFailCmd(t, m))
		} else {
			p.H = append(p.H, vfGenOKCmd(t, m, cfg))
		}
		p.RestartAfter = append(p.RestartAfter, rapid.IntRange(0, 5).Draw(t, "restart?") == 0)
	}
	return p
}

func hist2Run(focus string) func(t *testing.T, p hist2Plan) vfResult {
	return func(t *testing.T, p hist2Plan) (res vfResult) {
		vfBubble(t, func(w *vfWorld) {
			vfSetupWorldTargets(w)
			r := w.newRouter("a")
			m := newVFModel()
			restarts, redeploys := 0, 0
			for i, c := range p.H {
				if c.Op == "deploy" && m.Svcs[c.Svc] != nil {
					redeploys++
				}
				want := m.apply(c)
				got := vfExec(w, r, c)
				if got.Panicked != "" || !vfClassOK(want, vfErrClass(got.Err)) {
					res.failf("wrong-result", "step %d %s: result %q panic=%q, model accepts %v", i, c, vfErrClass(got.Err), got.Panicked, want)
					return
				}
				if i < len(p.RestartAfter) && p.RestartAfter[i] {
					synctest.Wait()
					raw, err := os.ReadFile(vfPathOf(r))
					if err != nil {
						if len(m.Svcs) == 0 {
							continue // nothing was ever saved: a restart finds nothing, as before
						}
						res.failf("no-state-file", "state file at the restart after step %d: %v", i, err)
						return
					}
					restarts++
					path := w.statePath(fmt.Sprintf("restart%d", restarts))
					os.WriteFile(path, raw, 0o644)
					nr := vfNewRouter(path)
					if err := nr.RestoreLastSavedState(); err != nil {
						res.failf("restore-failed", "restart after step %d: %v", i, err)
						return
					}
					for n := range vfRealList(r) {
						vfRemove(r, n)
					}
					w.adopt(nr)
					r = nr
					synctest.Wait()
					// the restarted proxy builds its rollout targets with the service options in force now
					for _, s := range m.Svcs {
						if s.Rollout != nil {
							s.RolloutOpt = s.Opt
						}
					}
				}
			}
			synctest.Wait()
			if focus == "C09" || focus == "C17" {
				hist2Probes(w, m, focus, restarts, &res)
				return
			}
			if focus == "C04" || focus == "C16" || focus == "C08" {
				hist2Matrix(w, r, m, focus, restarts, &res)
				return
			}
			obs := c11Observe(w, r, m, "h")
			checked := 0
			for _, o := range obs {
				s := m.Svcs[o.Svc]
				to := s.Opt.targetOptions()
				rp := o.Resp
				took := rp.End - rp.Start
				// the target's echo of a request is a JSON document of a few hundred bytes: with response buffering and a
				// response limit below that, the echo itself is over the limit
				echoOver := s.Opt.BufResp && s.Opt.MaxResp > 0 && s.Opt.MaxResp < 200
				if s.Opt.BufResp && s.Opt.MaxResp >= 200 && s.Opt.MaxResp < 4000 {
					panic("grid changed: a response limit near the size of the echo")
				}
				desc := fmt.Sprintf("service %s (options of its last successful deploy: %+v; %d restarts, %d redeploys in the history), request %s", o.Svc, s.Opt, restarts, redeploys, o.Key)
				switch focus {
				case "C13":
					if o.Kind != "get" {
						continue
					}
					if echoOver {
						res.label("skipped:echo-over-the-response-limit")
						continue
					}
					checked++
					if rp.Status != 200 {
						res.failf("not-served", "%s: answered %v", desc, rp)
						return
					}
					var echo vfEcho
					if err := json.Unmarshal(rp.Body, &echo); err != nil {
						res.failf("not-served", "%s: body is not the target's echo: %v", desc, rp)
						return
					}
					prefix := s.Spec.normPrefixes()[len(s.Spec.normPrefixes())-1]
					wantPath := o.Path
					if s.Opt.Strip && prefix != "/" {
						wantPath = strings.TrimPrefix(o.Path, strings.TrimSuffix(prefix, "/"))
						res.label("prefix-stripped")
					}
					if i := strings.Index(echo.URI, "?"); i < 0 || echo.URI[:i] != wantPath || !strings.HasPrefix(echo.URI[i:], "?x=1;y&job=") {
						res.failf("request-line", "%s: the target saw %q, want path %q with the query intact", desc, echo.URI, wantPath)
						return
					}
					wantXFF, wantXFP := "192.0.2.7", "http"
					if o.TLS {
						wantXFP = "https"
					}
					if s.Opt.Forward {
						wantXFF, wantXFP = "203.0.113.9, 192.0.2.7", "gopher"
						res.label("forward-headers-on")
					}
					if g := strings.Join(echo.Header["X-Forwarded-For"], ", "); g != wantXFF {
						res.failf("xff", "%s: X-Forwarded-For reached the target as %q, want %q", desc, g, wantXFF)
						return
					}
					if g := strings.Join(echo.Header["X-Forwarded-Proto"], ", "); g != wantXFP {
						res.failf("xfp", "%s: X-Forwarded-Proto reached the target as %q, want %q", desc, g, wantXFP)
						return
					}
				case "C14":
					switch o.Kind {
					case "post":
						checked++
						over := s.Opt.BufReq && s.Opt.MaxReq > 0 && int64(o.N) > s.Opt.MaxReq
						if over {
							res.label("413-expected")
						}
						wantOK := 200
						if echoOver {
							wantOK = 500
						}
						if over != (rp.Status == 413) || (!over && rp.Status != wantOK) {
							res.failf("request-limit", "%s: body of %d bytes answered %d (over the limit in force: %v)", desc, o.N, rp.Status, over)
							return
						}
					case "resp":
						checked++
						over := s.Opt.BufResp && s.Opt.MaxResp > 0 && int64(o.N) > s.Opt.MaxResp
						if over {
							res.label("500-expected")
						}
						if over != (rp.Status == 500) || (!over && (rp.Status != 200 || len(rp.Body) != o.N)) {
							res.failf("response-limit", "%s: response body of %d bytes answered %d with %d bytes (over the limit in force: %v)", desc, o.N, rp.Status, len(rp.Body), over)
							return
						}
					}
				case "C15":
					switch o.Kind {
					case "slow":
						checked++
						d := vfMs(o.N)
						wantStatus, wantTook := 200, d
						if echoOver {
							wantStatus = 500
						}
						if d > to.ResponseTimeout {
							wantStatus, wantTook = 504, to.ResponseTimeout
							res.label("504-expected")
						}
						if rp.Status != wantStatus || took != wantTook {
							res.failf("response-timeout", "%s: a target answering after %v got status %d after %v, want %d after %v (response timeout in force %v)", desc, d, rp.Status, took, wantStatus, wantTook, to.ResponseTimeout)
							return
						}
					case "abort":
						checked++
						custom := strings.Contains(string(rp.Body), "VF-CUSTOM-502")
						if rp.Status != 502 || custom != (s.Opt.ErrPages == 1) {
							res.failf("dropped-connection", "%s: a target dropping the connection got %v, want 502 (custom page: %v)", desc, rp, s.Opt.ErrPages == 1)
							return
						}
						if custom {
							res.label("custom-502-page")
						}
					}
				case "C19":
					checked++
					if len(o.Log) != 1 {
						res.failf("record-count", "%s: %d access-log records, want one: %v", desc, len(o.Log), o.Log)
						return
					}
					rec := o.Log[0]
					wantTarget := rp.Target
					if wantTarget == "" && rec["target"] != "" && !vfContains(s.Active, rec["target"]) {
						res.failf("record", "%s: the record names target %q, not one of %v", desc, rec["target"], s.Active)
						return
					}
					for k, wv := range map[string]string{"status": fmt.Sprint(rp.Status), "service": o.Svc, "path": o.Path, "duration": fmt.Sprint(took.Nanoseconds()),
						"client_addr": "192.0.2.7", "remote_addr": "203.0.113.9", "user_agent": "vf-agent"} {
						if rec[k] != wv {
							res.failf("record", "%s: the record has %s=%q, want %q (%v)", desc, k, rec[k], wv, rec)
							return
						}
					}
					if wantTarget != "" && rec["target"] != wantTarget {
						res.failf("record", "%s: the record names target %q, the answer came from %q", desc, rec["target"], wantTarget)
						return
					}
					logged := len(s.Opt.LogReq) > 0
					_, hasCustom := rec["req_x_custom"]
					_, hasAccept := rec["req_accept"]
					_, hasResp := rec["resp_x_vf_target"]
					if hasCustom != logged || hasAccept != logged || (logged && (rec["req_x_custom"] != "custom-value" || rec["req_accept"] != "text/vf")) {
						res.failf("record-headers", "%s: request headers in the record: %v, asked for %v", desc, rec, s.Opt.LogReq)
						return
					}
					if hasResp != logged || (logged && rec["resp_x_vf_target"] != rp.Target) {
						res.failf("record-headers", "%s: response headers in the record: %v, asked for %v (answered by %q)", desc, rec, s.Opt.LogResp, rp.Target)
						return
					}
					if logged {
						res.label("headers-logged")
					}
				}
			}
			if restarts > 0 {
				res.label("restart-in-history")
			}
			if redeploys > 0 {
				res.label("redeploy-in-history")
			}
			if checked > 0 {
				res.label("services-observed")
			}
			res.NonTrivial = checked > 0 && (restarts > 0 || redeploys > 0)
			// let pause timers and the like run out before the world is torn down
			time.Sleep(time.Second)
		})
		return res
	}
}

// hist2Probes watches the probes of the 12 s after the history. C09: every target of every service in place is probed
// on the health path and at the interval of the options in force (count within one per stream). C17: nobody else is -
// not the targets of removed or replaced deployments, not those of refused commands, not those of the proxy that was
// there before a restart. Rollout targets that still carry earlier options (the listed finding) are left out.
func hist2Probes(w *vfWorld, m *vfModel, focus string, restarts int, res *vfResult) {
	const window = 12 * time.Second
	t0 := w.now()
	time.Sleep(window)
	synctest.Wait()
	t1 := w.now()
	type pk struct{ target, path string }
	lo, hi, got := map[pk]int{}, map[pk]int{}, map[pk]int{}
	ambiguous := map[string]bool{}
	for _, n := range m.staleRolloutOptions() {
		for _, tn := range m.Svcs[n].Rollout {
			ambiguous[tn] = true
		}
	}
	streams := 0
	for _, name := range vfSortedKeys(m.Svcs) {
		s := m.Svcs[name]
		to := s.Opt.targetOptions()
		per := int(window / to.HealthCheckConfig.Interval)
		for _, tn := range append(append([]string{}, s.Active...), s.Rollout...) {
			k := pk{tn, to.HealthCheckConfig.Path}
			lo[k] += per - 1
			hi[k] += per + 1
			streams++
		}
	}
	seen := map[string]bool{}
	for _, tn := range append(vfAllTargets(), vfDeadPool...) {
		if seen[tn] {
			continue
		}
		seen[tn] = true
		for _, pr := range w.target(tn).probeLog() {
			if pr.At > t0 && pr.At <= t1 {
				got[pk{tn, pr.Path}]++
			}
		}
	}
	for k := range lo {
		if _, ok := got[k]; !ok {
			got[k] = 0
		}
	}
	for _, k := range vfSortedKeysFunc(got, func(a, b pk) bool { return a.target+a.path < b.target+b.path }) {
		if ambiguous[k.target] {
			res.label("skipped:stale-rollout-target")
			continue
		}
		switch focus {
		case "C09":
			if got[k] < lo[k] {
				res.failf("probing-stopped-or-slow", "in the %v after the history (%d restarts), target %s got %d probes of %q; by the options of the services that use it, at least %d", window, restarts, k.target, got[k], k.path, lo[k])
				return
			}
		case "C17":
			if got[k] > hi[k] {
				what := "more probes than the services that use it send"
				if hi[k] == 0 {
					what = "no service in place uses it (with this health path)"
				}
				res.failf("probed-by-nobody's-business", "in the %v after the history (%d restarts), target %s got %d probes of %q; at most %d expected: %s", window, restarts, k.target, got[k], k.path, hi[k], what)
				return
			}
		}
	}
	if restarts > 0 {
		res.label("restart-in-history")
	}
	if streams > 0 {
		res.label("targets-in-place")
	}
	res.NonTrivial = streams > 0
}

// hist2Matrix sends the request matrix (hosts x paths x both schemes) through the server's handler chain after the
// history and compares every answer with the model. C04: the scheme the owning service lets through - who answers,
// and `list`. C16: the other scheme - redirect or refusal as the effective TLS settings say. C08: the cells of stopped
// services - 503 with the operator's message on the page in force, 200 on the health-check path.
func hist2Matrix(w *vfWorld, r *Router, m *vfModel, focus string, restarts int, res *vfResult) {
	hd := NewServer(&Config{HttpPort: 80, HttpsPort: 443}, r).buildHandler()
	ctx := fmt.Sprintf("after the history (%d restarts)", restarts)
	cells := 0
	for _, host := range vfReqHosts {
		for _, path := range vfReqPaths {
			for _, tlsOn := range []bool{false, true} {
				name, _ := vfRefRoute(m.specs(), host, path)
				eff := false
				if name != "" {
					eff, _ = m.effTLS(m.Svcs[name])
				}
				rq := vfReqSpec{Host: host, Path: path, TLS: tlsOn}
				e := m.expect(rq, nil)
				switch focus {
				case "C04":
					if tlsOn != eff {
						continue
					}
				case "C16":
					if tlsOn == eff || name == "" {
						continue
					}
				case "C08":
					if name == "" || m.Svcs[name].State != "stopped" || tlsOn != eff {
						continue
					}
				}
				cells++
				kind, target, resp := vfObserveExpecting(w, hd, rq, e)
				if o := m.Svcs[name]; e.Kind == "forward" && kind == "status-500" && o != nil && o.Opt.BufResp && o.Opt.MaxResp > 0 && o.Opt.MaxResp < 200 {
					// the target's echo is itself over the response limit in force: 500 is the answer C14 asks for
					res.label("cell:forward-but-echo-over-the-response-limit")
					continue
				}
				if !vfMatches(e, kind, target) {
					res.failf("matrix-mismatch", "%s: request host=%q path=%q tls=%v: expected %+v, observed %s target=%q (%v); model=%v", ctx, host, path, tlsOn, e, kind, target, resp, m.summary())
					return
				}
				res.label("cell:" + e.Kind)
				if focus == "C08" && e.Kind == "stopped" {
					s := m.Svcs[name]
					body := string(resp.Body)
					custom := s.Opt.ErrPages == 1
					if custom != strings.Contains(body, vfCustom503Marker) || custom == strings.Contains(body, c08BuiltinMarker) {
						res.failf("wrong-503-page", "%s: stopped service %s, request host=%q path=%q: custom page expected=%v; body starts %q", ctx, name, host, path, custom, body[:min(len(body), 120)])
						return
					}
					region, ok := c08MessageRegion(body, custom)
					if !ok {
						res.failf("no-message-region", "%s: stopped service %s: cannot find the message paragraph in the 503 page", ctx, name)
						return
					}
					if s.Msg == "" && !custom {
						if !strings.Contains(region, c08DefaultText) {
							res.failf("default-text-missing", "%s: stopped service %s: empty message must give the default text, region=%q", ctx, name, region)
							return
						}
						continue
					}
					if got, want := html.UnescapeString(region), c08WantText(s.Msg); got != want {
						res.failf("message-altered", "%s: stopped service %s: message region unescapes to %q, want %q", ctx, name, got, want)
						return
					}
				}
			}
		}
	}
	if focus == "C04" && !vfCheckList(r, m, res, ctx) {
		return
	}
	if restarts > 0 {
		res.label("restart-in-history")
	}
	res.NonTrivial = cells > 0 && len(m.Svcs) > 0
}

func TestVF_C04_History(t *testing.T) {
	vfCheck(t, vfProp[hist2Plan]{id: "C04", gen: hist2Gen, run: hist2Run("C04")})
}

func TestVF_C08_History(t *testing.T) {
	vfCheck(t, vfProp[hist2Plan]{id: "C08", gen: hist2Gen, run: hist2Run("C08")})
}

func TestVF_C16_History(t *testing.T) {
	vfCheck(t, vfProp[hist2Plan]{id: "C16", gen: hist2Gen, run: hist2Run("C16")})
}

func TestVF_C09_History(t *testing.T) {
	vfCheck(t, vfProp[hist2Plan]{id: "C09", gen: hist2Gen, run: hist2Run("C09")})
}

func TestVF_C17_History(t *testing.T) {
	vfCheck(t, vfProp[hist2Plan]{id: "C17", gen: hist2Gen, run: hist2Run("C17")})
}

func TestVF_C13_History(t *testing.T) {
	vfCheck(t, vfProp[hist2Plan]{id: "C13", gen: hist2Gen, run: hist2Run("C13")})
}

func TestVF_C14_History(t *testing.T) {
	vfCheck(t, vfProp[hist2Plan]{id: "C14", gen: hist2Gen, run: hist2Run("C14")})
}

func TestVF_C15_History(t *testing.T) {
	vfCheck(t, vfProp[hist2Plan]{id: "C15", gen: hist2Gen, run: hist2Run("C15")})
}

func TestVF_C19_History(t *testing.T) {
	vfCheck(t, vfProp[hist2Plan]{id: "C19", gen: hist2Gen, run: hist2Run("C19")})
}
