//go:build verif && go1.25

package server

// C01 — traffic moves to new targets only after every one of them passed a probe; a deploy whose
// targets do not all become healthy in time fails and changes nothing.
// C17 (deploy part) — the same scenarios with the return instant checked exactly.

import (
	"fmt"
	"sort"
	"testing"
	"testing/synctest"
	"time"

	"pgregory.net/rapid"
)

type c01Target struct {
	Script  []vfProbeStep `json:"script"`
	Default vfProbeStep   `json:"default"`
}

type c01Req struct {
	AtMs   int  `json:"at_ms"`            // relative to command start
	Cookie bool `json:"cookie,omitempty"` // carries the rollout cookie
	DurMs  int  `json:"dur_ms,omitempty"` // service time at the target (C17)
}

type c01Plan struct {
	Kind           string      `json:"kind"` // new | redeploy | rollout
	Targets        []c01Target `json:"targets"`
	IntervalMs     int         `json:"interval_ms"`
	ProbeTimeoutMs int         `json:"probe_timeout_ms"`
	DeployMs       int         `json:"deploy_ms"`
	DrainMs        int         `json:"drain_ms"`
	OldTargets     int         `json:"old_targets"` // for redeploy / rollout: size of the set in place
	OldRollout     bool        `json:"old_rollout"` // rollout: a rollout set with a 100% split is already in place
	Reqs           []c01Req    `json:"reqs"`
}

func c01GenStep(t *rapid.T, probeTimeout int) vfProbeStep {
	switch rapid.IntRange(0, 5).Draw(t, "step-kind") {
	case 0:
		return vfProbeStep{Kind: "refuse"}
	case 1:
		return vfProbeStep{Kind: "status", Status: rapid.SampledFrom([]int{300, 304, 404, 500, 503, 400}).Draw(t, "bad-status")}
	case 2:
		d := rapid.SampledFrom([]int{probeTimeout - 1, probeTimeout, probeTimeout + 1, probeTimeout / 2, probeTimeout * 3}).Draw(t, "slow-by")
		return vfProbeStep{Kind: "slow", DelayMs: max(d, 1), Status: rapid.SampledFrom([]int{200, 204, 500}).Draw(t, "slow-status")}
	case 3:
		return vfProbeStep{Kind: "stall"}
	default:
		return vfProbeStep{Kind: "ok", Status: rapid.SampledFrom([]int{200, 201, 204, 299}).Draw(t, "ok-status")}
	}
}

func c01Gen(t *rapid.T) c01Plan { return c01GenMode(t, false) }

func c01GenMode(t *rapid.T, withDurations bool) c01Plan {
	p := c01Plan{}
	kinds := []string{"new", "redeploy", "redeploy", "rollout"}
	if withDurations { // C17: also a deploy that is refused late, by a host conflict
		kinds = append(kinds, "conflict")
	}
	p.Kind = rapid.SampledFrom(kinds).Draw(t, "kind")
	p.IntervalMs = rapid.SampledFrom([]int{100, 250, 1000}).Draw(t, "interval")
	p.ProbeTimeoutMs = rapid.SampledFrom([]int{50, 100, 300, 1000}).Draw(t, "probe-timeout")
	p.DeployMs = rapid.SampledFrom([]int{50, 200, 500, 1000, 3000}).Draw(t, "deploy-timeout") // 50: shorter than every probe interval
	p.DrainMs = rapid.SampledFrom([]int{100, 400, 2000}).Draw(t, "drain-timeout")
	if p.Kind != "new" && p.Kind != "conflict" {
		p.OldTargets = rapid.IntRange(1, 2).Draw(t, "old-targets")
		if p.Kind == "rollout" {
			p.OldRollout = rapid.Bool().Draw(t, "old-rollout")
		}
	}
	n := rapid.IntRange(1, 4).Draw(t, "ntargets")
	for i := 0; i < n; i++ {
		var tg c01Target
		k := rapid.IntRange(0, 5).Draw(t, "script-len")
		for j := 0; j < k; j++ {
			tg.Script = append(tg.Script, c01GenStep(t, p.ProbeTimeoutMs))
		}
		switch rapid.IntRange(0, 5).Draw(t, "default") {
		case 0:
			tg.Default = vfProbeStep{Kind: "status", Status: 500}
		case 1:
			tg.Default = vfProbeStep{Kind: "refuse"}
		default:
			tg.Default = vfProbeStep{Kind: "ok"}
		}
		p.Targets = append(p.Targets, tg)
	}
	nr := rapid.IntRange(0, 6).Draw(t, "nreqs")
	horizon := p.DeployMs + 3*p.IntervalMs
	for i := 0; i < nr; i++ {
		at := rapid.IntRange(0, horizon/50).Draw(t, "req-at") * 50
		if rapid.IntRange(0, 3).Draw(t, "req-jitter") == 0 {
			at += rapid.SampledFrom([]int{-1, 1}).Draw(t, "jitter")
		}
		rq := c01Req{AtMs: max(at, 0), Cookie: p.Kind == "rollout" && rapid.IntRange(0, 3).Draw(t, "cookie") > 0}
		if withDurations {
			rq.DurMs = rapid.SampledFrom([]int{0, 0, 50, 300, 1000, 5000}).Draw(t, "dur")
		}
		p.Reqs = append(p.Reqs, rq)
	}
	sort.Slice(p.Reqs, func(i, j int) bool { return p.Reqs[i].AtMs < p.Reqs[j].AtMs })
	return p
}

type c01Outcome struct {
	start, end   time.Duration
	err          error
	tokLoose     []time.Duration // per new target: first instant a 2xx answer was sent (-1 never)
	tokStrict    []time.Duration // same, counting only answers sent strictly inside the probe timeout
	newNames     []string
	oldNames     []string
	responses    []*vfResp
	sentAt       []time.Duration
	newReqs      []vfReqRec
	oldBusyUntil time.Duration // latest natural end of a request in flight at a replaced target when draining began
}

func c01Run(t *testing.T, p c01Plan) vfResult { return c01RunMode(t, p, "C01") }

func c01RunMode(t *testing.T, p c01Plan, mode string) (res vfResult) {
	vfBubble(t, func(w *vfWorld) {
		w.noteInterval(vfMs(p.IntervalMs))
		r := w.newRouter("r")
		opts := ServiceOptions{Hosts: []string{"svc.test"}, TLSRedirect: true}
		opts.Normalize()
		to := vfFastTargetOptions()
		to.HealthCheckConfig.Interval = vfMs(p.IntervalMs)
		to.HealthCheckConfig.Timeout = vfMs(p.ProbeTimeoutMs)
		var oldNames, oldRollout []string
		for i := 0; i < p.OldTargets; i++ {
			n := fmt.Sprintf("old%d:80", i)
			w.target(n)
			oldNames = append(oldNames, n)
		}
		if p.Kind == "conflict" {
			w.target("other0:80")
			if err := vfDeploy(r, "other", []string{"other0:80"}, opts, to, 5*time.Second, time.Second); err != nil {
				res.failf("setup-failed", "setup deploy of the host's owner failed: %v", err)
				return
			}
		} else if p.Kind != "new" {
			if err := vfDeploy(r, "svc", oldNames, opts, to, 5*time.Second, time.Second); err != nil {
				res.failf("setup-failed", "setup deploy failed: %v", err)
				return
			}
			if p.Kind == "rollout" && p.OldRollout {
				w.target("oldr0:80")
				oldRollout = []string{"oldr0:80"}
				if err := vfRolloutDeploy(r, "svc", oldRollout, 5*time.Second, time.Second); err != nil {
					res.failf("setup-failed", "setup rollout deploy failed: %v", err)
					return
				}
				if err := vfRolloutSet(r, "svc", 100, nil); err != nil {
					res.failf("setup-failed", "setup rollout set failed: %v", err)
					return
				}
			}
		}
		var newNames []string
		var newTargets []*vfTarget
		for i, ts := range p.Targets {
			n := fmt.Sprintf("new%d:80", i)
			tg := w.target(n)
			tg.setProbeScript(ts.Script, ts.Default)
			newNames = append(newNames, n)
			newTargets = append(newTargets, tg)
		}
		synctest.Wait()

		start := w.now()
		var cmd *vfPendingCmd
		if p.Kind == "rollout" {
			cmd = w.goCmd(func() error {
				return vfRolloutDeploy(r, "svc", newNames, vfMs(p.DeployMs), vfMs(p.DrainMs))
			})
		} else {
			cmd = w.goCmd(func() error { return vfDeploy(r, "svc", newNames, opts, to, vfMs(p.DeployMs), vfMs(p.DrainMs)) })
		}
		// client requests at their instants
		pend := make([]*vfPending, len(p.Reqs))
		sentAt := make([]time.Duration, len(p.Reqs))
		during := 0
		for i, rq := range p.Reqs {
			if d := start + vfMs(rq.AtMs) - w.now(); d > 0 {
				time.Sleep(d)
			}
			if !cmd.finished() {
				during++
			}
			req := vfNewRequest("GET", "svc.test", "/x", &vfCtl{ID: fmt.Sprintf("r%d", i), DurMs: rq.DurMs}, nil)
			if rq.Cookie {
				req.Header.Set("Cookie", RolloutCookieName+"=anyvalue")
			}
			sentAt[i] = w.now()
			pend[i] = w.goDo(r, req)
		}
		<-cmd.done
		synctest.Wait()
		end := cmd.res.End
		if cmd.res.Panicked != "" {
			res.failf("panic", "command panicked: %s", cmd.res.Panicked)
			return
		}
		// keep observing for 3 more intervals, with one more request per interval
		var late []*vfPending
		var lateCookie []bool
		for k := 0; k < 3; k++ {
			time.Sleep(vfMs(p.IntervalMs))
			for _, ck := range []bool{false, true} {
				if ck && p.Kind != "rollout" {
					continue
				}
				req := vfNewRequest("GET", "svc.test", "/x", &vfCtl{ID: fmt.Sprintf("late%d", k)}, nil)
				if ck {
					req.Header.Set("Cookie", RolloutCookieName+"=anyvalue")
				}
				late = append(late, w.goDo(r, req))
				lateCookie = append(lateCookie, ck)
			}
		}
		for _, pd := range append(append([]*vfPending{}, pend...), late...) {
			<-pd.done
		}
		synctest.Wait()

		// ---- oracle
		deadline := start + vfMs(p.DeployMs)
		pt := vfMs(p.ProbeTimeoutMs)
		tokLoose := make([]time.Duration, len(newTargets))
		tokStrict := make([]time.Duration, len(newTargets))
		for i, tg := range newTargets {
			tokLoose[i], tokStrict[i] = -1, -1
			for _, pr := range tg.probeLog() {
				if pr.Status >= 200 && pr.Status <= 299 && pr.Done >= 0 {
					if tokLoose[i] < 0 {
						tokLoose[i] = pr.Done
					}
					if tokStrict[i] < 0 && pr.Done-pr.At < pt {
						tokStrict[i] = pr.Done
					}
				}
			}
		}
		allStrictBefore, someLooseMissing := true, false
		var maxLoose, maxStrict time.Duration
		for i := range newTargets {
			if tokStrict[i] < 0 || tokStrict[i] >= deadline {
				allStrictBefore = false
			}
			if tokLoose[i] < 0 || tokLoose[i] > deadline {
				someLooseMissing = true
			}
			maxLoose = max(maxLoose, tokLoose[i])
			maxStrict = max(maxStrict, tokStrict[i])
		}
		failed := cmd.res.Err != nil
		if p.Kind == "conflict" {
			// healthy in time => refused by the conflict, at the instant the last target became healthy; never healthy => timeout
			desc := fmt.Sprintf("kind=conflict start=%v deadline=%v returned=%v err=%v T_ok(loose)=%v T_ok(strict)=%v", start, deadline, end, cmd.res.Err, tokLoose, tokStrict)
			cls := vfErrClass(cmd.res.Err)
			switch {
			case allStrictBefore && cls != "host-in-use":
				res.failf("conflict-not-refused", "the host is owned by another service and every new target became healthy: want host-in-use, got %q: %s", cls, desc)
				return
			case someLooseMissing && cls != "unhealthy":
				res.failf("wrong-error", "some target never became healthy: want the health error, got %q: %s", cls, desc)
				return
			case cls == "ok":
				res.failf("conflict-not-refused", "deploy onto a host owned by another service succeeded: %s", desc)
				return
			}
			if cls == "host-in-use" && (end < min(maxStrict, maxLoose) || end > max(maxStrict, maxLoose)) {
				res.failf("deploy-return-time", "refused deploy returned at %v, want the instant the last target became healthy (%v..%v): %s", end, min(maxStrict, maxLoose), max(maxStrict, maxLoose), desc)
				return
			}
			if cls == "unhealthy" && end != deadline {
				res.failf("failed-deploy-return-time", "failed deploy must return exactly at %v, returned at %v: %s", deadline, end, desc)
				return
			}
			for i, tg := range newTargets {
				if n := len(tg.reqLog()); n > 0 {
					res.failf("traffic-after-failed-deploy", "the deploy was refused, yet new target %s received %d client request(s): %s", newNames[i], n, desc)
					return
				}
				for _, pr := range tg.probeLog() {
					if pr.At > end {
						res.failf("probe-after-command", "target %s was probed at %v, after the deploy that named it was refused at %v: %s", newNames[i], pr.At, end, desc)
						return
					}
				}
			}
			for _, pd := range append(append([]*vfPending{}, pend...), late...) {
				if pd.resp.Status != 200 || pd.resp.Target != "other0:80" {
					res.failf("failed-deploy-disturbed-service", "the host's owner must keep answering, got %v: %s", pd.resp, desc)
					return
				}
			}
			res.NonTrivial = true
			res.label("kind:conflict")
			res.label("outcome:" + cls)
			return
		}
		desc := fmt.Sprintf("kind=%s start=%v deadline=%v returned=%v err=%v T_ok(loose)=%v T_ok(strict)=%v", p.Kind, start, deadline, end, cmd.res.Err, tokLoose, tokStrict)
		if failed && vfErrClass(cmd.res.Err) != "unhealthy" {
			res.failf("wrong-error", "unexpected error class: %s", desc)
			return
		}
		if allStrictBefore && failed {
			res.failf("failed-though-healthy", "every new target answered a probe 2xx inside the probe timeout before the deadline, yet the command failed: %s", desc)
			return
		}
		if someLooseMissing && !failed {
			res.failf("succeeded-though-unhealthy", "some new target sent no 2xx probe answer by the deadline, yet the command succeeded: %s", desc)
			return
		}
		// (a) no client request reaches a new target before every new target sent a 2xx
		for i, tg := range newTargets {
			for _, rq := range tg.reqLog() {
				for j := range newTargets {
					if tokLoose[j] < 0 || rq.Arrived < tokLoose[j] {
						res.failf("traffic-before-healthy", "new target %s received client request %s at %v but new target %s had sent no 2xx probe answer by then: %s",
							newNames[i], rq.ID, rq.Arrived, newNames[j], desc)
						return
					}
				}
				if failed {
					res.failf("traffic-after-failed-deploy", "the command failed, yet new target %s received client request %s at %v: %s", newNames[i], rq.ID, rq.Arrived, desc)
					return
				}
			}
		}
		// (b) after a failure the service answers as before
		if failed {
			all := append(append([]*vfPending{}, pend...), late...)
			for i, pd := range all {
				rp := pd.resp
				id := fmt.Sprintf("#%d", i)
				switch {
				case p.Kind == "new":
					if rp.Status != 404 {
						res.failf("failed-deploy-not-absent", "new service must stay absent after the failed deploy; request %s got %v: %s", id, rp, desc)
						return
					}
				default:
					okSet := oldNames
					ck := false
					if i < len(p.Reqs) {
						ck = p.Reqs[i].Cookie
					} else {
						ck = lateCookie[i-len(p.Reqs)]
					}
					if ck && p.OldRollout {
						okSet = oldRollout
					}
					if rp.Status != 200 || !vfContains(okSet, rp.Target) {
						res.failf("failed-deploy-disturbed-service", "after/while the deploy failed, request %s (cookie=%v) got %v, want 200 from %v: %s", id, ck, rp, okSet, desc)
						return
					}
				}
			}
		}
		if mode == "C17" {
			tie := false
			for i := range newTargets {
				tie = tie || tokStrict[i] != tokLoose[i] // a probe answered exactly at the probe timeout: either reading is legitimate
			}
			c17CheckDeployTiming(&res, p, w, cmd.res, failed, start, deadline, maxStrict, maxLoose, tie, oldNames, oldRollout, desc)
			if res.Violation != "" {
				return
			}
			// no probe starts at the targets concerned after the command is over:
			//  failed: the new targets; succeeded: the replaced ones
			var concerned []string
			if failed {
				concerned = newNames
			} else if p.Kind == "redeploy" {
				concerned = oldNames
			} else if p.Kind == "rollout" && p.OldRollout {
				concerned = oldRollout
			}
			for _, tn := range concerned {
				for _, pr := range w.targets[tn].probeLog() {
					if pr.At > end {
						res.failf("probe-after-command", "target %s was probed at %v, after the command that retired it returned at %v: %s", tn, pr.At, end, desc)
						return
					}
				}
			}
		}

		hasFailing := false
		for _, tg := range newTargets {
			for _, pr := range tg.probeLog() {
				if pr.Refused || pr.Status < 200 || pr.Status > 299 {
					hasFailing = true
				}
			}
		}
		res.NonTrivial = hasFailing && during > 0
		if failed {
			res.label("outcome:failed")
		} else {
			res.label("outcome:ok")
		}
		res.label("kind:" + p.Kind)
		if hasFailing {
			res.label("some-probe-failed")
		}
		if during > 0 {
			res.label("request-during-command")
		}
		if !allStrictBefore && !someLooseMissing {
			res.label("tie-at-deadline-or-timeout")
		}
	})
	return res
}

func TestVF_C01(t *testing.T) {
	vfCheck(t, vfProp[c01Plan]{id: "C01", gen: c01Gen, run: c01Run})
}
