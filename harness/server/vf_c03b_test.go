//go:build verif && go1.25

package server

// C03 (admission/drain atomicity) — at the level of one load balancer: a request is either admitted
// before a drain takes its snapshot (then the drain waits for it) or refused while draining; it is
// never admitted "in between" and still being served when the drain returns. Racing requests use a
// context whose Done() yields the processor, which widens any window between the admission check
// and the registration without changing what correct code does.

import (
	"context"
	"fmt"
	"net/http/httptest"
	"runtime"
	"sync"
	"sync/atomic"
	"testing"
	"testing/synctest"
	"time"

	"pgregory.net/rapid"
)

type c03bPlan struct {
	Racers      int `json:"racers"`
	Yields      int `json:"yields"`       // Gosched calls inside the racing requests' context.Done()
	DrainYields int `json:"drain_yields"` // Gosched calls before the drain starts
	LongMs      int `json:"long_ms"`      // service time of the request that keeps the drain waiting
	RacerMs     int `json:"racer_ms"`     // service time of the racing requests
	Targets     int `json:"targets"`
}

func c03bGen(t *rapid.T) c03bPlan {
	return c03bPlan{
		Racers:      rapid.IntRange(1, 8).Draw(t, "racers"),
		Yields:      rapid.IntRange(0, 40).Draw(t, "yields"),
		DrainYields: rapid.IntRange(0, 60).Draw(t, "drain-yields"),
		LongMs:      rapid.SampledFrom([]int{10, 50}).Draw(t, "long"),
		RacerMs:     rapid.SampledFrom([]int{100, 300}).Draw(t, "racer"),
		Targets:     rapid.IntRange(1, 2).Draw(t, "targets"),
	}
}

type vfYieldCtx struct {
	context.Context
	n int
}

func (c vfYieldCtx) Done() <-chan struct{} {
	for i := 0; i < c.n; i++ {
		runtime.Gosched()
	}
	return c.Context.Done()
}

func c03bRun(t *testing.T, p c03bPlan) (res vfResult) {
	vfBubble(t, func(w *vfWorld) {
		var names []string
		for i := 0; i < p.Targets; i++ {
			n := fmt.Sprintf("dt%d:80", i)
			w.target(n)
			names = append(names, n)
		}
		to := vfFastTargetOptions()
		to.HealthCheckConfig.Interval = 10 * time.Second
		w.noteInterval(10 * time.Second)
		to.ResponseTimeout = time.Minute
		tl, err := NewTargetList(names, to)
		if err != nil {
			res.failf("setup-failed", "%v", err)
			return
		}
		lb := NewLoadBalancer(tl)
		defer lb.Dispose()
		if err := lb.WaitUntilHealthy(time.Second); err != nil {
			res.failf("setup-failed", "%v", err)
			return
		}
		synctest.Wait()
		// one long request per target keeps the drain waiting
		var longs []*vfPending
		for i := 0; i < p.Targets; i++ {
			longs = append(longs, w.goDo(lb, vfNewRequest("GET", "h", "/long", &vfCtl{ID: fmt.Sprintf("long%d", i), DurMs: p.LongMs}, nil)))
		}
		synctest.Wait()
		var wg sync.WaitGroup
		start := make(chan struct{})
		var refused, served atomic.Int32
		for i := 0; i < p.Racers; i++ {
			wg.Add(1)
			go func() {
				defer wg.Done()
				<-start
				req := vfNewRequest("GET", "h", "/race", &vfCtl{ID: fmt.Sprintf("racer%d", i), DurMs: p.RacerMs}, nil)
				req = req.WithContext(vfYieldCtx{Context: req.Context(), n: p.Yields})
				rec := httptest.NewRecorder()
				lb.ServeHTTP(rec, req)
				if rec.Code == 503 {
					refused.Add(1)
				} else {
					served.Add(1)
				}
			}()
		}
		drained := make(chan struct{})
		var returnedAt time.Duration
		go func() {
			<-start
			for i := 0; i < p.DrainYields; i++ {
				runtime.Gosched()
			}
			lb.DrainAll(30 * time.Second)
			returnedAt = w.now()
			// the instant the drain returns: nothing admitted may still be in flight
			for _, tg := range lb.Targets() {
				tg.inflightLock.Lock()
				n := len(tg.inflight)
				tg.inflightLock.Unlock()
				if n != 0 {
					res.failf("inflight-at-drain-return", "drain returned at %v with %d request(s) still registered in flight at target %s (racers=%d yields=%d drain-yields=%d)",
						returnedAt, n, tg.Target(), p.Racers, p.Yields, p.DrainYields)
				}
			}
			close(drained)
		}()
		close(start)
		<-drained
		open := 0
		for _, n := range names {
			for _, rq := range w.targets[n].reqLog() {
				if rq.Finished < 0 {
					open++
				}
			}
		}
		if open > 0 && res.Violation == "" {
			res.failf("open-at-drain-return", "drain returned at %v while %d request(s) are still being served by its targets", returnedAt, open)
		}
		wg.Wait()
		for _, l := range longs {
			<-l.done
		}
		synctest.Wait()
		res.NonTrivial = refused.Load() > 0 && served.Load() > 0
		if refused.Load() > 0 {
			res.label("racer-refused-while-draining")
		}
		if served.Load() > 0 {
			res.label("racer-admitted-before-snapshot")
		}
	})
	return res
}

func TestVF_C03_DrainAtomicity(t *testing.T) {
	vfCheck(t, vfProp[c03bPlan]{id: "C03", gen: c03bGen, run: c03bRun})
}
