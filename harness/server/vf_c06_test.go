//go:build verif && go1.25

package server

// C06 — a command that fails changes nothing and leaves nothing running.

import (
	"fmt"
	"os"
	"sort"
	"strings"
	"testing"
	"testing/synctest"
	"time"

	"pgregory.net/rapid"
)

type c06Plan struct {
	Setup []vfCmd `json:"setup"`
	Fail  vfCmd   `json:"fail"`
	// During (op "" = none): a command that succeeds, issued while the failing one is still waiting for its dead
	// target; afterwards everything must be as that command alone left it.
	During vfCmd `json:"during"`
}

func c06Gen(t *rapid.T) c06Plan {
	m := newVFModel()
	p := c06Plan{}
	n := rapid.IntRange(1, 10).Draw(t, "nsetup")
	cfg := vfGenCfg{Options: true, TLS: true, Pause: true}
	for i := 0; i < n; i++ {
		p.Setup = append(p.Setup, vfGenOKCmd(t, m, cfg))
	}
	p.Fail = vfGenFailCmd(t, m)
	late := false
	for _, tn := range p.Fail.Targets {
		late = late || !vfTargetAlive(tn)
	}
	if late && (p.Fail.Op == "deploy" || p.Fail.Op == "rollout-deploy") && len(m.Svcs) > 0 && rapid.IntRange(0, 2).Draw(t, "during") == 0 {
		p.Fail.DeployMs = 2500
		scratch := m.clone()
		p.During = vfGenOKCmd(t, scratch, vfGenCfg{Pause: false})
		if p.Fail.Op == "rollout-deploy" && rapid.Bool().Draw(t, "same-slot") {
			// the same slot of the same service is deployed successfully while the failing deploy still waits
			p.During = vfCmd{Op: "rollout-deploy", Svc: p.Fail.Svc, Targets: vfPick(t, vfRolloutPool, 2, "rtarget")}
		}
		if p.During.Op == "remove" || p.During.Op == "pause" {
			p.During = vfCmd{} // keep every service observable
		}
	}
	return p
}

var c06Cookies = []string{"c1", "c2", "c3", "vip", "zzzz"}

// c06Snapshot collects everything observable about the configuration, as comparable strings.
func c06Snapshot(w *vfWorld, r *Router, m *vfModel, statePath string) map[string]string {
	out := map[string]string{}
	for n, row := range vfRealList(r) {
		out["list/"+n] = fmt.Sprintf("%+v", row)
	}
	slotOf := func(svc, target string) string {
		s := m.Svcs[svc]
		if s == nil {
			return "?" + target
		}
		a, ro := vfContains(s.Active, target), vfContains(s.Rollout, target)
		switch {
		case a && ro:
			return svc + ":either"
		case a:
			return svc + ":active"
		case ro:
			return svc + ":rollout"
		}
		return svc + ":FOREIGN:" + target
	}
	for _, h := range vfReqHosts {
		for _, p := range vfReqPaths {
			for _, tlsOn := range []bool{false, true} {
				rq := vfReqSpec{Host: h, Path: p, TLS: tlsOn}
				name, _ := vfRefRoute(m.specs(), h, p)
				e := m.expect(rq, nil)
				kind, target, resp := vfObserveExpecting(w, r, rq, e)
				v := kind
				switch kind {
				case "forward":
					v += ":" + slotOf(name, target)
				case "503":
					v += ":" + c06BodyDigest(resp)
				case "redirect":
					v += ":" + resp.Header.Get("Location")
				}
				out[fmt.Sprintf("req/%s|%s|tls=%v", h, p, tlsOn)] = v
			}
		}
	}
	// rollout side of a fixed cookie set, per service (through its first binding)
	for _, n := range vfSortedKeys(m.Svcs) {
		s := m.Svcs[n]
		if s.State != "running" {
			continue
		}
		host := strings.TrimPrefix(s.Spec.normHosts()[0], "*.")
		if strings.HasPrefix(s.Spec.normHosts()[0], "*.") {
			host = "q." + host
		}
		tlsOn, _ := m.effTLS(s)
		for _, ck := range c06Cookies {
			rq := vfReqSpec{Host: host, Path: s.Spec.normPrefixes()[0], TLS: tlsOn, Cookie: ck}
			kind, target, _ := vfClassify(w.do(r, rq.build()))
			owner, _ := vfRefRoute(m.specs(), rq.Host, rq.Path)
			out["cookie/"+n+"/"+ck] = kind + ":" + slotOf(owner, target)
		}
	}
	b, err := os.ReadFile(statePath)
	switch {
	case err != nil:
		out["statefile"] = "absent"
	default:
		saved, _, perr := vfParseState(b)
		if perr != nil {
			out["statefile"] = "UNPARSABLE: " + perr.Error()
		} else {
			for n, s := range vfSavedSummary(saved) {
				out["state/"+n] = s
			}
			out["statefile"] = c06NormState(b)
		}
	}
	return out
}

func c06BodyDigest(r *vfResp) string {
	if r == nil {
		return ""
	}
	b := string(r.Body)
	if i := strings.Index(b, "<article>"); i >= 0 {
		b = b[i:]
	}
	if i := strings.Index(b, "</article>"); i >= 0 {
		b = b[:i]
	}
	return strings.Join(strings.Fields(b), " ")
}

// c06NormState sorts the top-level array by its raw elements (service order in the file follows map iteration).
func c06NormState(b []byte) string {
	s := strings.TrimSpace(string(b))
	if !strings.HasPrefix(s, "[") {
		return s
	}
	// split top-level objects
	var parts []string
	depth, start, inStr, esc := 0, -1, false, false
	for i := 0; i < len(s); i++ {
		ch := s[i]
		if inStr {
			if esc {
				esc = false
			} else if ch == '\\' {
				esc = true
			} else if ch == '"' {
				inStr = false
			}
			continue
		}
		switch ch {
		case '"':
			inStr = true
		case '{':
			if depth == 0 {
				start = i
			}
			depth++
		case '}':
			depth--
			if depth == 0 && start >= 0 {
				parts = append(parts, s[start:i+1])
			}
		}
	}
	sort.Strings(parts)
	return strings.Join(parts, "\n")
}

// c06Full: everything observable plus the in-package view of every service's slots, options, pause state and split.
func c06Full(w *vfWorld, r *Router, m *vfModel, statePath string) map[string]string {
	out := c06Snapshot(w, r, m, statePath)
	for k, v := range c11Internal(r) {
		out[k] = v
	}
	return out
}

func c06Run(t *testing.T, p c06Plan) (res vfResult) {
	vfBubble(t, func(w *vfWorld) {
		vfSetupWorldTargets(w)
		// tf1 passes its first probe and fails every later one: a target that was healthy for a while
		w.target(vfFailPool[1]).setProbeScript([]vfProbeStep{{Kind: "ok"}}, vfProbeStep{Kind: "status", Status: 500})
		r := w.newRouter("r")
		m := newVFModel()
		for i, c := range p.Setup {
			want := m.apply(c)
			got := vfExec(w, r, c)
			if got.Panicked != "" || !vfClassOK(want, vfErrClass(got.Err)) {
				res.failf("setup-failed", "setup step %d %s: result %q panic=%q, model accepts %v", i, c, vfErrClass(got.Err), got.Panicked, want)
				return
			}
		}
		synctest.Wait()
		statePath := w.statePath("r")
		before := c06Full(w, r, m, statePath)
		// targets named only by the failing command
		used := map[string]bool{}
		for _, s := range m.Svcs {
			for _, x := range s.Active {
				used[x] = true
			}
			for _, x := range s.Rollout {
				used[x] = true
			}
		}
		synctest.Wait()
		usedMark := map[string]int{}
		for tn := range used {
			usedMark[tn] = len(w.targets[tn].probeLog())
		}
		mark := map[string]int{}
		for _, tn := range p.Fail.Targets {
			if tg, ok := w.targets[tn]; ok && !used[tn] {
				mark[tn] = len(tg.probeLog())
			}
		}

		want := m.clone().apply(p.Fail)
		var got vfCmdResult
		if p.During.Op != "" {
			pc := w.goCmd(func() error { got = vfExec(w, r, p.Fail); return nil })
			time.Sleep(300 * time.Millisecond) // the failing command now waits for its dead target
			synctest.Wait()
			wantD := m.apply(p.During)
			gotD := vfExec(w, r, p.During)
			if gotD.Panicked != "" || !vfClassOK(wantD, vfErrClass(gotD.Err)) {
				res.failf("setup-failed", "overlapping command %s: result %q panic=%q, model accepts %v", p.During, vfErrClass(gotD.Err), gotD.Panicked, wantD)
				return
			}
			synctest.Wait()
			for tn := range used {
				delete(used, tn)
			}
			for tn := range usedMark {
				delete(usedMark, tn)
			}
			for _, s := range m.Svcs {
				for _, x := range append(append([]string{}, s.Active...), s.Rollout...) {
					used[x] = true
				}
			}
			for tn := range mark {
				if used[tn] {
					delete(mark, tn)
				}
			}
			for tn := range used {
				usedMark[tn] = len(w.targets[tn].probeLog())
			}
			before = c06Full(w, r, m, statePath) // what the overlapping command alone leaves
			<-pc.done
			res.label("ok-command-during-failing-one")
		} else {
			got = vfExec(w, r, p.Fail)
		}
		cls := vfErrClass(got.Err)
		if got.Panicked != "" {
			res.failf("panic", "failing command %s panicked: %s", p.Fail, got.Panicked)
			return
		}
		if cls == "ok" {
			res.failf("no-error", "command %s must fail with one of %v but succeeded", p.Fail, want)
			return
		}
		if !vfClassOK(want, cls) {
			res.failf("wrong-error-class", "command %s failed with %q, model accepts %v", p.Fail, cls, want)
			return
		}
		res.label("class:" + cls)
		synctest.Wait()
		after := c06Full(w, r, m, statePath)
		if d := vfDiffMaps(before, after); d != "" {
			res.failf("changed:"+cls, "failed command %s (%s) changed observable state:\n%s", p.Fail, cls, d)
			return
		}
		// nothing keeps running on its behalf: no probe reaches a target named only by the failed command
		ivl := vfMs(max(p.Fail.Opt.IntervalMs, 1000))
		if s := m.Svcs[p.Fail.Svc]; s != nil && s.Opt.IntervalMs > 0 {
			ivl = max(ivl, vfMs(s.Opt.IntervalMs))
		}
		time.Sleep(5 * ivl)
		synctest.Wait()
		for tn, n0 := range mark {
			late := 0
			for _, pr := range w.targets[tn].probeLog()[n0:] {
				if pr.At > got.End {
					late++
				}
			}
			if late > 0 {
				res.failf("probe-leak:"+cls, "after failed command %s (%s, returned at %v) target %s named only by it was probed %d more times in the next %v",
					p.Fail, cls, got.End, tn, late, 5*ivl)
				return
			}
		}
		// ... and the targets in use keep being probed as before
		for tn, n0 := range usedMark {
			if len(w.targets[tn].probeLog()) == n0 {
				res.failf("probing-stopped:"+cls, "after failed command %s (%s) target %s, in use by a deployed service, was not probed once in the next %v", p.Fail, cls, tn, 5*ivl)
				return
			}
		}
		final := c06Full(w, r, m, statePath)
		if d := vfDiffMaps(before, final); d != "" {
			res.failf("changed-later:"+cls, "state drifted after failed command %s (%s):\n%s", p.Fail, cls, d)
			return
		}
		res.NonTrivial = len(m.Svcs) >= 2
		res.label(fmt.Sprintf("services:%d", len(m.Svcs)))
		if len(mark) > 0 {
			res.label("probe-leak-checked")
		}
	})
	return res
}

func TestVF_C06(t *testing.T) {
	vfCheck(t, vfProp[c06Plan]{id: "C06", gen: c06Gen, run: c06Run})
}
