//go:build verif && go1.25

package server

// C17 (c) / C10 — commands on ONE service that overlap. A deploy works on a copy of the service and
// installs it later; whatever another command did to the service in between (a second deploy, a rollout
// deploy, rollout set / stop) must neither be lost nor leave targets behind that nobody owns.
// Oracle (no model of "who wins" needed): once every command has returned and the proxy is quiet,
//   - every target that still receives health probes is one the service has now (per the saved state),
//     and every target the service has now is being probed;
//   - requests are answered by the targets the service has now;
//   - a `rollout stop` that returned last leaves no split in force, a `rollout set` that returned last
//     leaves its split in force.

import (
	"encoding/json"
	"fmt"
	"os"
	"sort"
	"strings"
	"testing"
	"testing/synctest"
	"time"

	"pgregory.net/rapid"
)

type c17bCmd struct {
	Op      string `json:"op"` // deploy | rollout-deploy | rollout-set | rollout-stop
	Targets int    `json:"targets,omitempty"`
	HoldAt  string `json:"hold_at,omitempty"` // "" | before-install | installed: the command is held there until the others are done
}

type c17bPlan struct {
	Rollout bool      `json:"rollout"` // rollout targets and a split are in place at the start
	Cmds    []c17bCmd `json:"cmds"`    // started in this order; a held command is released after all later ones returned
}

func c17bGen(t *rapid.T) c17bPlan {
	p := c17bPlan{Rollout: rapid.Bool().Draw(t, "rollout")}
	n := rapid.IntRange(2, 3).Draw(t, "ncmds")
	held := false
	for i := 0; i < n; i++ {
		c := c17bCmd{Op: rapid.SampledFrom([]string{"deploy", "deploy", "rollout-deploy", "rollout-set", "rollout-stop"}).Draw(t, "op")}
		if c.Op == "deploy" || c.Op == "rollout-deploy" {
			c.Targets = rapid.IntRange(1, 2).Draw(t, "targets")
			if !held && i < n-1 {
				c.HoldAt = rapid.SampledFrom([]string{"before-install", "before-install", "installed", ""}).Draw(t, "hold")
				held = c.HoldAt != ""
			}
		}
		p.Cmds = append(p.Cmds, c)
	}
	return p
}

type c17bSaved struct {
	Name              string   `json:"name"`
	ActiveTargets     []string `json:"active_targets"`
	RolloutTargets    []string `json:"rollout_targets"`
	RolloutController *struct {
		Percentage int `json:"percentage"`
	} `json:"rollout_controller"`
}

func c17bRun(t *testing.T, p c17bPlan) vfResult { return c17bRunMode(t, p, "C17") }

// mode C17 judges the probing (no target without an owner is probed, every owned target is); mode C10 judges
// where requests go (split in force or not, answered by targets the service has).
func c17bRunMode(t *testing.T, p c17bPlan, mode string) (res vfResult) {
	vfBubble(t, func(w *vfWorld) {
		r := w.newRouter("r")
		opts := ServiceOptions{Hosts: []string{"svc.test"}, TLSRedirect: true}
		opts.Normalize()
		to := vfFastTargetOptions()
		ivl := 100 * time.Millisecond
		to.HealthCheckConfig.Interval = ivl
		w.noteInterval(ivl)
		nset := 0
		mk := func(n int) []string {
			var out []string
			for i := 0; i < n; i++ {
				name := fmt.Sprintf("g%dt%d:80", nset, i)
				w.target(name)
				out = append(out, name)
			}
			nset++
			return out
		}
		if err := vfDeploy(r, "svc", mk(1), opts, to, 5*time.Second, 50*time.Millisecond); err != nil {
			res.failf("setup-failed", "deploy: %v", err)
			return
		}
		if p.Rollout {
			if err := vfRolloutDeploy(r, "svc", mk(1), 5*time.Second, 50*time.Millisecond); err != nil {
				res.failf("setup-failed", "rollout deploy: %v", err)
				return
			}
			if err := vfRolloutSet(r, "svc", 100, nil); err != nil {
				res.failf("setup-failed", "rollout set: %v", err)
				return
			}
		}
		synctest.Wait()
		sc := newVFSched(w, []string{"deploy.before-install", "deploy.installed"}, nil)
		results := make([]vfCmdResult, len(p.Cmds))
		heldActor := ""
		for i, c := range p.Cmds {
			actor := fmt.Sprintf("cmd%d", i)
			var set []string
			if c.Targets > 0 {
				set = mk(c.Targets)
			}
			sc.spawn(actor, func() {
				results[i] = w.runCmd(func() error {
					switch c.Op {
					case "deploy":
						return vfDeploy(r, "svc", set, opts, to, 5*time.Second, 50*time.Millisecond)
					case "rollout-deploy":
						return vfRolloutDeploy(r, "svc", set, 5*time.Second, 50*time.Millisecond)
					case "rollout-set":
						return vfRolloutSet(r, "svc", 100, nil)
					case "rollout-stop":
						return vfRolloutStop(r, "svc")
					case "remove":
						return vfRemove(r, "svc")
					}
					return nil
				})
			})
			// run it up to its hold point (or to completion)
			for guard := 0; guard < 200 && !sc.isFinished(actor); guard++ {
				synctest.Wait()
				if pt := sc.parkedAt(actor); pt != "" {
					if c.HoldAt != "" && pt == "deploy."+c.HoldAt && heldActor == "" {
						heldActor = actor
						break
					}
					sc.release(actor)
					continue
				}
				if !sc.isFinished(actor) {
					time.Sleep(10 * time.Millisecond)
				}
			}
		}
		if heldActor != "" {
			for guard := 0; guard < 200 && !sc.isFinished(heldActor); guard++ {
				synctest.Wait()
				if sc.parkedAt(heldActor) != "" {
					sc.release(heldActor)
					continue
				}
				time.Sleep(10 * time.Millisecond)
			}
			var hi int
			fmt.Sscanf(heldActor, "cmd%d", &hi)
			res.label("overlap:held-at-" + p.Cmds[hi].HoldAt)
		}
		// the shape of the overlap names the signature: each combination is a finding (or not) of its own
		shape := "sequential"
		if heldActor != "" {
			var hi int
			fmt.Sscanf(heldActor, "cmd%d", &hi)
			var meanwhile []string
			for _, c := range p.Cmds[hi+1:] {
				meanwhile = append(meanwhile, c.Op)
			}
			sort.Strings(meanwhile)
			class := "rollout-set-or-stop-meanwhile"
			for _, op := range meanwhile {
				if op == "deploy" || op == "rollout-deploy" {
					class = "targets-deployed-meanwhile"
				}
				if op == "remove" {
					class = "removed-meanwhile"
					break
				}
			}
			shape = fmt.Sprintf("%s-held|%s", p.Cmds[hi].Op, class)
			res.label("meanwhile:" + strings.Join(vfUniq(meanwhile), "+"))
		}
		sc.stop()
		vfCurSched.Store(nil)
		synctest.Wait()
		for i, cr := range results {
			if cr.Panicked != "" {
				res.failf("panic", "command %d %+v panicked: %s", i, p.Cmds[i], cr.Panicked)
				return
			}
			if cr.Err != nil && !(p.Cmds[i].Op == "rollout-set" && vfErrClass(cr.Err) == "no-rollout") {
				res.failf("command-failed", "command %d %+v failed: %v", i, p.Cmds[i], cr.Err)
				return
			}
		}
		// the split the operator has asked for: the last rollout set / stop to return decides (deploys do not touch it)
		splitWant := p.Rollout
		for i, c := range p.Cmds {
			switch {
			case c.Op == "rollout-set" && results[i].Err == nil:
				splitWant = true
			case c.Op == "rollout-stop":
				splitWant = false
			}
		}
		// quiet: let drains end and a few probe rounds pass
		time.Sleep(time.Second)
		synctest.Wait()
		raw, err := os.ReadFile(vfPathOf(r))
		if err != nil {
			res.failf("no-state-file", "%v", err)
			return
		}
		var saved []c17bSaved
		removed := p.Cmds[len(p.Cmds)-1].Op == "remove"
		if err := json.Unmarshal(raw, &saved); err != nil || len(saved) != 1 && !(removed && len(saved) <= 1) {
			res.failf("state-file", "state file: %v (%d services)", err, len(saved))
			return
		}
		if len(saved) == 0 {
			saved = []c17bSaved{{Name: "svc"}} // removed: the service owns nothing
		}
		owned := map[string]bool{}
		for _, n := range append(append([]string{}, saved[0].ActiveTargets...), saved[0].RolloutTargets...) {
			owned[n] = true
		}
		mark := w.now()
		time.Sleep(5 * ivl)
		synctest.Wait()
		desc := fmt.Sprintf("commands %+v; the service now has active=%v rollout=%v", p.Cmds, saved[0].ActiveTargets, saved[0].RolloutTargets)
		var names []string
		for n := range w.targets {
			names = append(names, n)
		}
		sort.Strings(names)
		for _, n := range names {
			if mode != "C17" {
				break
			}
			probed := 0
			for _, pr := range w.targets[n].probeLog() {
				if pr.At > mark {
					probed++
				}
			}
			if !owned[n] && probed > 0 {
				res.failf("orphaned-target-still-probed:"+shape, "%s: target %s is not one of them, yet it got %d health probes in the %v after everything had returned", desc, n, probed, 5*ivl)
				return
			}
			if owned[n] && probed == 0 {
				res.failf("owned-target-not-probed:"+shape, "%s: target %s got no health probe in %v", desc, n, 5*ivl)
				return
			}
		}
		// traffic
		for i := 0; i < 4 && mode == "C10" && !removed; i++ {
			for _, cookie := range []bool{false, true} {
				req := vfNewRequest("GET", "svc.test", "/x", &vfCtl{ID: fmt.Sprintf("q%d", i)}, nil)
				if cookie {
					req.Header.Set("Cookie", RolloutCookieName+"=v")
				}
				rp := w.do(r, req)
				if rp.Status != 200 || !owned[rp.Target] {
					res.failf("served-by-orphan:"+shape, "%s: a request (cookie=%v) got %v", desc, cookie, rp)
					return
				}
				if !cookie && !vfContains(saved[0].ActiveTargets, rp.Target) {
					res.failf("no-cookie-not-active:"+shape, "%s: a request without the cookie was answered by %s", desc, rp.Target)
					return
				}
				if cookie && !splitWant && !vfContains(saved[0].ActiveTargets, rp.Target) {
					res.failf("split-survives-rollout-stop:"+strings.SplitN(shape, "|", 2)[0], "%s: the last split command to return was `rollout stop`, yet a request with the cookie was answered by rollout target %s", desc, rp.Target)
					return
				}
				if cookie && splitWant && len(saved[0].RolloutTargets) > 0 && !vfContains(saved[0].RolloutTargets, rp.Target) {
					res.failf("split-lost:"+strings.SplitN(shape, "|", 2)[0], "%s: a 100%% split is in force (the last split command to return set it), yet a request with the cookie was answered by active target %s", desc, rp.Target)
					return
				}
			}
		}
		res.NonTrivial = heldActor != ""
		var ops []string
		for _, c := range p.Cmds {
			ops = append(ops, c.Op)
		}
		res.label("ops:" + strings.Join(ops, "+"))
	})
	return res
}

// c17bCases enumerates the whole space of overlap shapes: with / without a rollout in place, every sequence of 2 or
// 3 of the five commands, every deploy-type command but the last as the held one (at either hook), or none held.
func c17bCases(yield func(c17bPlan) bool) {
	ops := []string{"deploy", "rollout-deploy", "rollout-set", "rollout-stop"}
	var rec func(prefix []string, n int) bool
	emit := func(seq []string, rollout bool) bool {
		mk := func(held int, at string) c17bPlan {
			p := c17bPlan{Rollout: rollout}
			for i, op := range seq {
				c := c17bCmd{Op: op}
				if op == "deploy" || op == "rollout-deploy" {
					c.Targets = 1 + i%2
				}
				if i == held {
					c.HoldAt = at
				}
				p.Cmds = append(p.Cmds, c)
			}
			return p
		}
		if !yield(mk(-1, "")) {
			return false
		}
		for i, op := range seq[:len(seq)-1] {
			if op == "deploy" || op == "rollout-deploy" {
				for _, at := range []string{"before-install", "installed"} {
					if !yield(mk(i, at)) {
						return false
					}
				}
			}
		}
		return true
	}
	rec = func(prefix []string, n int) bool {
		if len(prefix) == n {
			return emit(prefix, false) && emit(prefix, true)
		}
		for _, op := range ops {
			if !rec(append(append([]string{}, prefix...), op), n) {
				return false
			}
		}
		if len(prefix) == n-1 { // `remove` as the last command: afterwards nothing of the service may be probed
			if !rec(append(append([]string{}, prefix...), "remove"), n) {
				return false
			}
		}
		return true
	}
	_ = rec(nil, 2) && rec(nil, 3)
}

func TestVF_C17_Overlap(t *testing.T) {
	vfEnumerate(t, vfEnum[c17bPlan]{id: "C17", cases: c17bCases, run: c17bRun})
}

func TestVF_C10_Overlap(t *testing.T) {
	vfEnumerate(t, vfEnum[c17bPlan]{id: "C10", cases: c17bCases, run: func(t *testing.T, p c17bPlan) vfResult { return c17bRunMode(t, p, "C10") }})
}

func vfUniq(xs []string) []string {
	var out []string
	for i, x := range xs {
		if i == 0 || x != xs[i-1] {
			out = append(out, x)
		}
	}
	return out
}
