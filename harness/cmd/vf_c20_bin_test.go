//go:build verif && go1.25

package cmd

// C20 (c) — the built binary: exit codes of client commands and the `list` table, against a model.

import (
	"io"
	"strconv"
	"bytes"
	"fmt"
	"net"
	"net/http"
	"net/http/httptest"
	"os"
	"os/exec"
	"path/filepath"
	"regexp"
	"sort"
	"strings"
	"testing"
	"time"

	"pgregory.net/rapid"
)

type c20Cmd struct {
	Op      string   `json:"op"` // deploy remove pause stop resume rollout-deploy rollout-set rollout-stop list
	Svc     string   `json:"svc"`
	Hosts   []string `json:"hosts,omitempty"`
	Prefix  []string `json:"prefix,omitempty"`
	Targets []int    `json:"targets,omitempty"` // indices into the fake targets; -1 = dead port
	Pct     int      `json:"pct,omitempty"`
	Extra   []string `json:"extra,omitempty"` // extra flags (validation cases)
	TLS     bool     `json:"tls,omitempty"`   // deploy --tls (automatic; nothing is fetched until a handshake)
	// SlowFlight (deploy of a running, non-TLS service): a request that takes 3 s is in flight on the old target when
	// the command is issued with --deploy-timeout 400ms --drain-timeout 10s: the proxy answers once the request has
	// ended, and the command reports that success however long the drain took
	SlowFlight bool `json:"slow_flight,omitempty"`
}

type c20BinPlan struct {
	Cmds []c20Cmd `json:"cmds"`
}

type c20MSvc struct {
	hosts, prefixes []string
	targets         []int
	rollout         bool
	state           string
	tls             bool
}

func c20NormPrefixes(ps []string) []string {
	if len(ps) == 0 {
		return []string{"/"}
	}
	var out []string
	for _, p := range ps {
		out = append(out, "/"+strings.Trim(p, "/"))
	}
	return out
}

func c20Conflict(m map[string]*c20MSvc, name string, hosts, prefixes []string) bool {
	hs := hosts
	if len(hs) == 0 {
		hs = []string{""}
	}
	for n, s := range m {
		if n == name {
			continue
		}
		sh := s.hosts
		if len(sh) == 0 {
			sh = []string{""}
		}
		for _, h := range hs {
			for _, h2 := range sh {
				if h != h2 {
					continue
				}
				for _, p := range c20NormPrefixes(prefixes) {
					for _, p2 := range c20NormPrefixes(s.prefixes) {
						if p == p2 {
							return true
						}
					}
				}
			}
		}
	}
	return false
}

// c20Apply returns whether the command must fail, and updates the model on success.
func c20Apply(m map[string]*c20MSvc, c c20Cmd) (fail bool) {
	s := m[c.Svc]
	dead := false
	for _, t := range c.Targets {
		if t < 0 {
			dead = true
		}
	}
	switch c.Op {
	case "deploy":
		if len(c.Extra) > 0 { // validation case, refused by the CLI
			return true
		}
		if dead || c20Conflict(m, c.Svc, c.Hosts, c.Prefix) {
			return true
		}
		if s == nil {
			s = &c20MSvc{state: "running"}
			m[c.Svc] = s
		}
		s.hosts, s.prefixes, s.targets, s.tls = c.Hosts, c.Prefix, c.Targets, c.TLS
	case "remove":
		if s == nil {
			return true
		}
		delete(m, c.Svc)
	case "pause", "stop", "resume":
		if s == nil {
			return true
		}
		s.state = map[string]string{"pause": "paused", "stop": "stopped", "resume": "running"}[c.Op]
	case "rollout-deploy":
		if s == nil || dead {
			return true
		}
		s.rollout = true
	case "rollout-set":
		if s == nil || !s.rollout {
			return true
		}
	case "rollout-stop":
		if s == nil {
			return true
		}
	}
	return false
}

var c20Names = []string{"web", "api", "admin", "café-crème-brûlée-backend"}

func c20BinGen(t *rapid.T) c20BinPlan {
	p := c20BinPlan{}
	m := map[string]*c20MSvc{}
	prologue := rapid.IntRange(0, 5).Draw(t, "prologue")
	if prologue == 2 {
		// a redeploy while a slow request is in flight on the target being replaced
		for _, c := range []c20Cmd{{Op: "deploy", Svc: "admin", Hosts: []string{"b.example.com"}, Targets: []int{0}},
			{Op: "deploy", Svc: "admin", Hosts: []string{"b.example.com"}, Targets: []int{1}, SlowFlight: true}, {Op: "list"}} {
			c20Apply(m, c)
			p.Cmds = append(p.Cmds, c)
		}
	}
	if prologue <= 1 {
		// a host whose root service has TLS on and a second service below a path of it, in either order, then list
		root := c20Cmd{Op: "deploy", Svc: "web", Hosts: []string{"a.example.com"}, Targets: []int{0}, TLS: true}
		sub := c20Cmd{Op: "deploy", Svc: "api", Hosts: []string{"a.example.com"}, Prefix: []string{rapid.SampledFrom([]string{"/api", "app/"}).Draw(t, "sub-prefix")}, Targets: []int{1}}
		pro := []c20Cmd{root, sub}
		if rapid.Bool().Draw(t, "sub-first") {
			pro = []c20Cmd{sub, root}
		}
		for _, c := range append(pro, c20Cmd{Op: "list"}) {
			c20Apply(m, c)
			p.Cmds = append(p.Cmds, c)
		}
	}
	n := rapid.IntRange(3, 10).Draw(t, "ncmds")
	for i := 0; i < n; i++ {
		c := c20Cmd{Svc: rapid.SampledFrom(c20Names).Draw(t, "svc")}
		c.Op = rapid.SampledFrom([]string{"deploy", "deploy", "deploy", "remove", "remove", "pause", "stop", "resume", "rollout-deploy", "rollout-set", "rollout-stop", "list", "restart", "list"}).Draw(t, "op")
		switch c.Op {
		case "deploy":
			nh := rapid.IntRange(0, 2).Draw(t, "nhosts")
			for j := 0; j < nh; j++ {
				h := rapid.SampledFrom([]string{"a.example.com", "b.example.com", "*.example.com"}).Draw(t, "host")
				dup := false
				for _, x := range c.Hosts {
					dup = dup || x == h
				}
				if !dup {
					c.Hosts = append(c.Hosts, h)
				}
			}
			if rapid.Bool().Draw(t, "prefix?") {
				c.Prefix = []string{rapid.SampledFrom([]string{"/api", "/", "app/"}).Draw(t, "prefix")}
			}
			c.Targets = []int{rapid.IntRange(-1, 2).Draw(t, "target")}
			if rapid.IntRange(0, 3).Draw(t, "two") == 0 {
				c.Targets = append(c.Targets, rapid.IntRange(0, 2).Draw(t, "target2"))
			}
			rootPath := len(c.Prefix) == 0 || c.Prefix[0] == "/"
			noWildcard := true
			for _, h := range c.Hosts {
				noWildcard = noWildcard && !strings.Contains(h, "*")
			}
			if len(c.Hosts) > 0 && rootPath && noWildcard && rapid.IntRange(0, 1).Draw(t, "tls") == 0 {
				c.TLS = true
			}
			// a companion below a path of a host whose root service has TLS on: its TLS column follows that service
			if rapid.IntRange(0, 2).Draw(t, "companion") == 0 {
				var roots []string
				for _, n := range c20SortedNames(m) {
					if o := m[n]; o.tls && n != c.Svc && len(o.hosts) > 0 {
						roots = append(roots, o.hosts[0])
					}
				}
				if len(roots) > 0 {
					c.Hosts = []string{rapid.SampledFrom(roots).Draw(t, "companion-host")}
					c.Prefix = []string{rapid.SampledFrom([]string{"/api", "app/"}).Draw(t, "companion-prefix")}
					c.TLS = false
				}
			}
			c.SlowFlight = rapid.IntRange(0, 3).Draw(t, "slow-flight") == 0
			if rapid.IntRange(0, 7).Draw(t, "invalid") == 0 {
				c.Extra = rapid.SampledFrom([][]string{{"--max-request-body", "10"}, {"--max-response-body", "10"}, {"--tls", "--path-prefix", "/only"}}).Draw(t, "extra")
				if c.Extra[0] == "--tls" {
					c.Prefix, c.TLS = nil, false // TLS on a service that does not include the root path: refused
				}
			}
		case "rollout-deploy":
			c.Targets = []int{rapid.IntRange(-1, 2).Draw(t, "target")}
		case "rollout-set":
			c.Pct = rapid.IntRange(0, 100).Draw(t, "pct")
		}
		c20Apply(m, c)
		p.Cmds = append(p.Cmds, c)
	}
	p.Cmds = append(p.Cmds, c20Cmd{Op: "list"})
	return p
}

var c20Ansi = regexp.MustCompile("\x1b\\[[0-9;]*m")

func c20FreePort() int {
	l, err := net.Listen("tcp", "127.0.0.1:0")
	if err != nil {
		panic(err)
	}
	defer l.Close()
	return l.Addr().(*net.TCPAddr).Port
}

func c20BinRun(t *testing.T, p c20BinPlan) (res vfResult) {
	bin := os.Getenv("VF_BINARY")
	if bin == "" {
		res.failf("harness", "VF_BINARY not set")
		return
	}
	dir, err := os.MkdirTemp(os.Getenv("VF_SCRATCH"), "bin-")
	if err != nil {
		res.failf("harness", "%v", err)
		return
	}
	defer os.RemoveAll(dir)
	env := append(os.Environ(), "HOME="+dir, "XDG_RUNTIME_DIR="+dir, "TMPDIR="+dir)
	var targets []*httptest.Server
	for i := 0; i < 3; i++ {
		idx := i
		s := httptest.NewServer(http.HandlerFunc(func(w http.ResponseWriter, r *http.Request) {
			if ms, _ := strconv.Atoi(r.URL.Query().Get("ms")); ms > 0 {
				select {
				case <-time.After(time.Duration(ms) * time.Millisecond):
				case <-r.Context().Done():
				}
			}
			fmt.Fprintf(w, "target%d", idx)
		}))
		defer s.Close()
		targets = append(targets, s)
	}
	// a target that never becomes healthy: a port that is bound for the whole case but never accepted from (a
	// merely "free" port can be taken by another test process meanwhile - that made a deploy succeed once)
	deadL, err := net.Listen("tcp", "127.0.0.1:0")
	if err != nil {
		res.failf("harness", "%v", err)
		return
	}
	defer deadL.Close()
	deadPort := deadL.Addr().(*net.TCPAddr).Port
	tname := func(i int) string {
		if i < 0 {
			return fmt.Sprintf("127.0.0.1:%d", deadPort)
		}
		return strings.TrimPrefix(targets[i].URL, "http://")
	}
	httpPort, httpsPort := c20FreePort(), c20FreePort()
	var out bytes.Buffer
	var proxy *exec.Cmd
	sock := filepath.Join(dir, "kamal-proxy.sock")
	startProxy := func() string {
		os.Remove(sock)
		proxy = exec.Command(bin, "run", "--http-port", fmt.Sprint(httpPort), "--https-port", fmt.Sprint(httpsPort))
		proxy.Env = env
		proxy.Stdout, proxy.Stderr = &out, &out
		if err := proxy.Start(); err != nil {
			return "start proxy: " + err.Error()
		}
		deadline := time.Now().Add(15 * time.Second)
		for {
			if _, err := os.Stat(sock); err == nil {
				return ""
			}
			if time.Now().After(deadline) {
				return "timeout"
			}
			time.Sleep(5 * time.Millisecond)
		}
	}
	stopProxy := func() {
		if proxy != nil && proxy.Process != nil {
			proxy.Process.Kill()
			proxy.Wait()
		}
	}
	defer stopProxy()
	switch why := startProxy(); why {
	case "":
	case "timeout":
		res.Excluded = "proxy did not start within 15 s (inconclusive)"
		return
	default:
		res.failf("harness", "%s", why)
		return
	}
	// the ports given on the command line are the ports served: plain HTTP on one, TLS on the other
	hc := &http.Client{Timeout: 5 * time.Second}
	if resp, err := hc.Get(fmt.Sprintf("http://127.0.0.1:%d/", httpPort)); err != nil {
		res.failf("http-port-not-served", "kamal-proxy run --http-port %d: GET http://127.0.0.1:%d/ failed: %v", httpPort, httpPort, err)
		return
	} else {
		resp.Body.Close()
		if resp.StatusCode != http.StatusNotFound {
			res.failf("http-port-not-served", "kamal-proxy run --http-port %d with nothing deployed: GET / got %d, want 404", httpPort, resp.StatusCode)
			return
		}
	}
	if resp, err := hc.Get(fmt.Sprintf("http://127.0.0.1:%d/", httpsPort)); err == nil {
		resp.Body.Close()
		if resp.StatusCode != http.StatusBadRequest { // net/http's answer to plain HTTP on a TLS port
			res.failf("https-port-not-tls", "kamal-proxy run --https-port %d: a plain-HTTP request to that port got %d, want 400 (client sent an HTTP request to an HTTPS server)", httpsPort, resp.StatusCode)
			return
		}
	} else {
		res.failf("https-port-not-served", "kamal-proxy run --https-port %d: connecting to that port failed: %v", httpsPort, err)
		return
	}
	m := map[string]*c20MSvc{}
	errors := 0
	for i, c := range p.Cmds {
		var args []string
		var flight chan string
		switch c.Op {
		case "deploy":
			args = []string{"deploy", c.Svc, "--deploy-timeout", "400ms", "--drain-timeout", "200ms", "--health-check-interval", "50ms"}
			for _, tg := range c.Targets {
				args = append(args, "--target", tname(tg))
			}
			for _, h := range c.Hosts {
				args = append(args, "--host", h)
			}
			for _, pf := range c.Prefix {
				args = append(args, "--path-prefix", pf)
			}
			if c.TLS {
				args = append(args, "--tls")
			}
			args = append(args, c.Extra...)
			if old := m[c.Svc]; c.SlowFlight && old != nil && old.state == "running" && !c20EffTLS(m, old) && len(c.Extra) == 0 && len(old.targets) > 0 && old.targets[0] >= 0 {
				probe := map[string]*c20MSvc{}
				for k, v := range m {
					cp := *v
					probe[k] = &cp
				}
				if !c20Apply(probe, c) { // the deploy is one the model expects to succeed
					host := "anything.test"
					if len(old.hosts) > 0 {
						host = strings.Replace(old.hosts[0], "*", "x", 1)
					}
					req, _ := http.NewRequest("GET", fmt.Sprintf("http://127.0.0.1:%d%s/slow?ms=3000", httpPort, strings.TrimSuffix(c20NormPrefixes(old.prefixes)[0], "/")), nil)
					req.Host = host
					flight = make(chan string, 1)
					go func() {
						resp, err := (&http.Client{Timeout: 20 * time.Second}).Do(req)
						if err != nil {
							flight <- "error: " + err.Error()
							return
						}
						b, _ := io.ReadAll(resp.Body)
						resp.Body.Close()
						flight <- fmt.Sprintf("%d %s", resp.StatusCode, b)
					}()
					time.Sleep(300 * time.Millisecond)
					args[3], args[5] = "400ms", "10s"
					res.label("deploy-with-a-slow-request-in-flight")
				}
			}
		case "remove", "pause", "stop", "resume":
			args = []string{c.Op, c.Svc}
			if c.Op == "pause" || c.Op == "stop" {
				args = append(args, "--drain-timeout", "200ms")
			}
		case "rollout-deploy":
			args = []string{"rollout", "deploy", c.Svc, "--deploy-timeout", "400ms", "--drain-timeout", "200ms", "--target", tname(c.Targets[0])}
		case "rollout-set":
			args = []string{"rollout", "set", c.Svc, "--percent", fmt.Sprint(c.Pct)}
		case "rollout-stop":
			args = []string{"rollout", "stop", c.Svc}
		case "list":
			args = []string{"list"}
		case "restart":
			// the proxy goes away (killed) and is started again over the same data directory
			stopProxy()
			switch why := startProxy(); why {
			case "":
			case "timeout":
				res.Excluded = "proxy did not start within 15 s (inconclusive)"
				return
			default:
				res.failf("harness", "%s", why)
				return
			}
			res.label("restart-between-commands")
			continue
		}
		wantFail := c20Apply(m, c)
		cmd := exec.Command(bin, args...)
		cmd.Env = env
		var so, se bytes.Buffer
		cmd.Stdout, cmd.Stderr = &so, &se
		err := cmd.Run()
		code := 0
		if err != nil {
			if ee, ok := err.(*exec.ExitError); ok {
				code = ee.ExitCode()
			} else {
				res.failf("harness", "run %v: %v", args, err)
				return
			}
		}
		desc := fmt.Sprintf("step %d: kamal-proxy %s", i, strings.Join(args, " "))
		if flight != nil {
			got := <-flight
			if !strings.HasPrefix(got, "200 target") {
				res.failf("flight-cut", "%s: the request in flight when the command was issued (3 s, drain timeout 10 s) ended with %q", desc, got)
				return
			}
			desc += " (a 3 s request was in flight on the old target)"
		}
		if wantFail != (code != 0) {
			res.failf("exit-code:"+c.Op, "%s: exit status %d, model says the command %s; stderr=%q", desc, code, map[bool]string{true: "fails", false: "succeeds"}[wantFail], se.String())
			return
		}
		if wantFail {
			errors++
			if len(c.Extra) > 0 && strings.Contains(se.String(), "dial unix") {
				res.failf("validation-after-contact", "%s: refused only after contacting the proxy: %q", desc, se.String())
				return
			}
		}
		if c.Op == "list" {
			rows := map[string][]string{}
			for li, line := range strings.Split(strings.TrimSpace(c20Ansi.ReplaceAllString(so.String(), "")), "\n") {
				f := regexp.MustCompile(`\s{2,}`).Split(strings.TrimSpace(line), -1)
				if li == 0 || len(f) < 6 {
					continue
				}
				rows[f[0]] = f[1:6]
			}
			want := map[string][]string{}
			for n, s := range m {
				host := strings.Join(s.hosts, ",")
				if host == "" {
					host = "*"
				}
				var ts []string
				for _, tg := range s.targets {
					ts = append(ts, tname(tg))
				}
				tlsCol := "no"
				if c20EffTLS(m, s) {
					tlsCol = "yes"
					if !s.tls {
						res.label("listed:sub-path-service-under-a-tls-root")
					}
				}
				want[n] = []string{host, strings.Join(c20NormPrefixes(s.prefixes), ","), strings.Join(ts, ","), s.state, tlsCol}
			}
			if fmt.Sprint(c20Sorted(rows)) != fmt.Sprint(c20Sorted(want)) {
				res.failf("list-rows", "%s: printed rows %v, model %v; raw=%q", desc, c20Sorted(rows), c20Sorted(want), so.String())
				return
			}
		}
	}
	res.NonTrivial = errors > 0
	if errors > 0 {
		res.label("command-with-error-outcome")
	}
	return res
}

// c20EffTLS: a service on a sub-path shows the TLS setting of the service on the root path of its (first) host.
func c20EffTLS(m map[string]*c20MSvc, s *c20MSvc) bool {
	for _, p := range c20NormPrefixes(s.prefixes) {
		if p == "/" {
			return s.tls
		}
	}
	host := ""
	if len(s.hosts) > 0 {
		host = s.hosts[0]
	}
	find := func(h string) *c20MSvc {
		for _, o := range m {
			oh := o.hosts
			if len(oh) == 0 {
				oh = []string{""}
			}
			for _, x := range oh {
				if x != h {
					continue
				}
				for _, p := range c20NormPrefixes(o.prefixes) {
					if p == "/" {
						return o
					}
				}
			}
		}
		return nil // nobody at this host level serves its root
	}
	level := func(h string) bool {
		for _, o := range m {
			oh := o.hosts
			if len(oh) == 0 {
				oh = []string{""}
			}
			for _, x := range oh {
				if x == h {
					return true
				}
			}
		}
		return false
	}
	cands := []string{host}
	if i := strings.Index(host, "."); i > 0 {
		cands = append(cands, "*"+host[i:])
	}
	cands = append(cands, "")
	for _, h := range cands {
		if level(h) {
			if r := find(h); r != nil {
				return r.tls
			}
			return false
		}
	}
	return false
}

func c20Sorted(m map[string][]string) []string {
	var out []string
	for k, v := range m {
		out = append(out, k+"="+strings.Join(v, "|"))
	}
	sort.Strings(out)
	return out
}

func TestVF_C20_Binary(t *testing.T) {
	vfCheck(t, vfProp[c20BinPlan]{id: "C20", gen: c20BinGen, run: c20BinRun})
}

func c20SortedNames(m map[string]*c20MSvc) []string {
	var out []string
	for n := range m {
		out = append(out, n)
	}
	sort.Strings(out)
	return out
}
