//go:build verif && go1.25

package cmd

// C20 — CLI options, validation and exit codes. Decision tables are enumerated completely.

import (
	"fmt"
	"os"
	"strings"
	"testing"

	"github.com/spf13/cobra"

	"github.com/basecamp/kamal-proxy/internal/server"
)

// ---------------------------------------------------------------- (a) run options: flag > KAMAL_PROXY_X > X > default

type c20RunCase struct {
	Option   string `json:"option"`   // debug | http-port | https-port
	Flag     string `json:"flag"`     // "" absent, else the value given on the command line
	Prefixed string `json:"prefixed"` // "-" absent, else value of KAMAL_PROXY_<NAME>
	Bare     string `json:"bare"`     // "-" absent, else value of <NAME>
}

type c20Opt struct {
	name, env string
	def       string
	valid     []string
	malformed []string
}

var c20Opts = []c20Opt{
	{"http-port", "HTTP_PORT", "80", []string{"8080", "0", "65535"}, []string{"", "abc", "80.5", " 81", "0x50", "99999999999999999999"}},
	{"https-port", "HTTPS_PORT", "443", []string{"8443", "1"}, []string{"", "port", "44 3", "4e3"}},
	{"debug", "DEBUG", "false", []string{"true", "1", "T", "false", "0", "F"}, []string{"", "yes", "on", "2", "tru", " true"}},
}

func c20RunCases(yield func(c20RunCase) bool) {
	for _, o := range c20Opts {
		envVals := append([]string{"-"}, o.valid...)
		envVals = append(envVals, o.malformed...)
		flagVals := append([]string{""}, o.valid[:2]...)
		for _, f := range flagVals {
			for _, p := range envVals {
				for _, b := range envVals {
					if !yield(c20RunCase{Option: o.name, Flag: f, Prefixed: p, Bare: b}) {
						return
					}
				}
			}
		}
	}
}

func c20ParseBool(s string) (bool, bool) {
	switch s {
	case "1", "t", "T", "TRUE", "true", "True":
		return true, true
	case "0", "f", "F", "FALSE", "false", "False":
		return false, true
	}
	return false, false
}

func c20ParseInt(s string) (int, bool) {
	if s == "" {
		return 0, false
	}
	neg := false
	i := 0
	if s[0] == '+' || s[0] == '-' {
		neg = s[0] == '-'
		i = 1
	}
	if i == len(s) || len(s)-i > 18 {
		return 0, false
	}
	n := 0
	for ; i < len(s); i++ {
		if s[i] < '0' || s[i] > '9' {
			return 0, false
		}
		n = n*10 + int(s[i]-'0')
	}
	if neg {
		n = -n
	}
	return n, true
}

func c20RunRun(t *testing.T, c c20RunCase) (res vfResult) {
	var o c20Opt
	for _, x := range c20Opts {
		if x.name == c.Option {
			o = x
		}
	}
	// a clean environment for the three options
	for _, x := range c20Opts {
		os.Unsetenv(x.env)
		os.Unsetenv(ENV_PREFIX + x.env)
	}
	if c.Prefixed != "-" {
		os.Setenv(ENV_PREFIX+o.env, c.Prefixed)
	}
	if c.Bare != "-" {
		os.Setenv(o.env, c.Bare)
	}
	defer func() {
		os.Unsetenv(o.env)
		os.Unsetenv(ENV_PREFIX + o.env)
	}()
	globalConfig = server.Config{}
	rc := newRunCommand()
	var args []string
	if c.Flag != "" {
		args = []string{"--" + o.name + "=" + c.Flag}
	}
	if err := rc.cmd.ParseFlags(args); err != nil {
		res.failf("parse-error", "%+v: ParseFlags: %v", c, err)
		return
	}
	// expected source
	want := o.def
	src := "default"
	switch {
	case c.Flag != "":
		want, src = c.Flag, "flag"
	case c.Prefixed != "-":
		want, src = c.Prefixed, "prefixed"
	case c.Bare != "-":
		want, src = c.Bare, "bare"
	}
	var got, wantNorm string
	if o.name == "debug" {
		got = fmt.Sprint(rc.debugLogsEnabled)
		if v, ok := c20ParseBool(want); ok {
			wantNorm = fmt.Sprint(v)
		} else {
			wantNorm, src = o.def, src+"-malformed"
		}
	} else {
		if o.name == "http-port" {
			got = fmt.Sprint(globalConfig.HttpPort)
		} else {
			got = fmt.Sprint(globalConfig.HttpsPort)
		}
		if v, ok := c20ParseInt(want); ok {
			wantNorm = fmt.Sprint(v)
		} else {
			wantNorm, src = o.def, src+"-malformed"
		}
	}
	if got != wantNorm {
		res.failf("run-option:"+o.name, "option %s with flag=%q %s%s=%q %s=%q resolved to %s, want %s (source: %s)", o.name, c.Flag, ENV_PREFIX, o.env, c.Prefixed, o.env, c.Bare, got, wantNorm, src)
		return
	}
	// the other options keep their defaults
	if o.name != "http-port" && globalConfig.HttpPort != server.DefaultHttpPort || o.name != "https-port" && globalConfig.HttpsPort != server.DefaultHttpsPort ||
		o.name != "debug" && rc.debugLogsEnabled {
		res.failf("run-option-crosstalk", "setting %s changed another option: http=%d https=%d debug=%v", o.name, globalConfig.HttpPort, globalConfig.HttpsPort, rc.debugLogsEnabled)
		return
	}
	n := 0
	for _, v := range []bool{c.Flag != "", c.Prefixed != "-", c.Bare != "-"} {
		if v {
			n++
		}
	}
	res.NonTrivial = n >= 2
	res.label("source:" + src)
	return res
}

func TestVF_C20_RunOptions(t *testing.T) {
	vfEnumerate(t, vfEnum[c20RunCase]{id: "C20", cases: c20RunCases, run: c20RunRun})
}

// ---------------------------------------------------------------- (b) deploy validation

type c20DeployCase struct {
	TLS      int  `json:"tls"`    // 0 absent, 1 --tls, 2 --tls=false
	Host     int  `json:"host"`   // 0 none, 1 one, 2 two
	Prefix   int  `json:"prefix"` // 0 none, 1 "/", 2 "/api", 3 "/" and "/api", 4 "api/" only
	MaxReq   bool `json:"max_req"`
	BufReq   int  `json:"buf_req"` // 0 absent, 1 --buffer-requests, 2 --buffer-requests=false
	MaxResp  bool `json:"max_resp"`
	BufResp  int  `json:"buf_resp"`
	Forward  int  `json:"forward"` // 0 absent, 1 true, 2 false
	Cert     int  `json:"cert"`    // 0 none, 1 both, 2 only certificate, 3 only key
	NoTarget bool `json:"no_target"`
	// the limit is given explicitly with the value 0 (which is also the default): it was still given
	MaxReqZero  bool `json:"max_req_zero,omitempty"`
	MaxRespZero bool `json:"max_resp_zero,omitempty"`
}

func c20DeployCases(yield func(c20DeployCase) bool) {
	for tls := 0; tls <= 2; tls++ {
		for host := 0; host <= 2; host++ {
			for prefix := 0; prefix <= 4; prefix++ {
				for _, maxReq := range []bool{false, true} {
					for bufReq := 0; bufReq <= 2; bufReq++ {
						for _, maxResp := range []bool{false, true} {
							for bufResp := 0; bufResp <= 2; bufResp++ {
								for fwd := 0; fwd <= 2; fwd++ {
									for cert := 0; cert <= 3; cert++ {
										for _, nt := range []bool{false, true} {
											if nt && (cert != 0 || fwd != 0) {
												continue
											}
											for _, z := range [][2]bool{{false, false}, {true, false}, {false, true}} {
												if z[0] && !maxReq || z[1] && !maxResp {
													continue
												}
												if !yield(c20DeployCase{tls, host, prefix, maxReq, bufReq, maxResp, bufResp, fwd, cert, nt, z[0], z[1]}) {
													return
												}
											}
										}
									}
								}
							}
						}
					}
				}
			}
		}
	}
}

func (c c20DeployCase) args() []string {
	a := []string{"deploy", "svc1"}
	if !c.NoTarget {
		a = append(a, "--target", "web-1:3000")
	}
	switch c.TLS {
	case 1:
		a = append(a, "--tls")
	case 2:
		a = append(a, "--tls=false")
	}
	if c.Host >= 1 {
		a = append(a, "--host", "app.example.com")
	}
	if c.Host == 2 {
		a = append(a, "--host", "www.example.com")
	}
	switch c.Prefix {
	case 1:
		a = append(a, "--path-prefix", "/")
	case 2:
		a = append(a, "--path-prefix", "/api")
	case 3:
		a = append(a, "--path-prefix", "/api", "--path-prefix", "/")
	case 4:
		a = append(a, "--path-prefix", "api/")
	}
	if c.MaxReq && c.MaxReqZero {
		a = append(a, "--max-request-body", "0")
	} else if c.MaxReq {
		a = append(a, "--max-request-body", "1000")
	}
	switch c.BufReq {
	case 1:
		a = append(a, "--buffer-requests")
	case 2:
		a = append(a, "--buffer-requests=false")
	}
	if c.MaxResp && c.MaxRespZero {
		a = append(a, "--max-response-body", "0")
	} else if c.MaxResp {
		a = append(a, "--max-response-body", "2000")
	}
	switch c.BufResp {
	case 1:
		a = append(a, "--buffer-responses")
	case 2:
		a = append(a, "--buffer-responses=false")
	}
	switch c.Forward {
	case 1:
		a = append(a, "--forward-headers")
	case 2:
		a = append(a, "--forward-headers=false")
	}
	switch c.Cert {
	case 1:
		a = append(a, "--tls-certificate-path", "/c.pem", "--tls-private-key-path", "/k.pem")
	case 2:
		a = append(a, "--tls-certificate-path", "/c.pem")
	case 3:
		a = append(a, "--tls-private-key-path", "/k.pem")
	}
	return a
}

// wantRefusals: every refusal that applies (the documented ones, plus cobra's own: required --target,
// certificate pair together). When several apply the CLI may report any one of them.
func (c c20DeployCase) wantRefusals() []string {
	var out []string
	if c.NoTarget {
		out = append(out, "required-target")
	}
	if c.Cert == 2 || c.Cert == 3 {
		out = append(out, "cert-pair")
	}
	if c.MaxReq && c.BufReq == 0 {
		out = append(out, "max-request-body")
	}
	if c.MaxResp && c.BufResp == 0 {
		out = append(out, "max-response-body")
	}
	if c.TLS == 1 && c.Host == 0 {
		out = append(out, "tls-host")
	}
	if c.TLS == 1 && !(c.Prefix == 0 || c.Prefix == 1 || c.Prefix == 3) {
		out = append(out, "tls-root-path")
	}
	return out
}

func c20Classify(err error) string {
	if err == nil {
		return ""
	}
	s := err.Error()
	switch {
	case strings.Contains(s, "required flag(s) \"target\""):
		return "required-target"
	case strings.Contains(s, "must all be set"):
		return "cert-pair"
	case strings.Contains(s, "max-request-body can only be set"):
		return "max-request-body"
	case strings.Contains(s, "max-response-body can only be set"):
		return "max-response-body"
	case strings.Contains(s, "host must be set when using TLS"):
		return "tls-host"
	case strings.Contains(s, "TLS settings must be specified on the root path service"):
		return "tls-root-path"
	case strings.Contains(s, "REACHED-RUN"):
		return "reached-run"
	}
	return "other:" + s
}

func c20DeployRun(t *testing.T, c c20DeployCase) (res vfResult) {
	globalConfig = server.Config{}
	dc := newDeployCommand()
	var captured *server.DeployArgs
	contacted := false
	dc.cmd.RunE = func(cmd *cobra.Command, args []string) error {
		contacted = true
		a := dc.args
		captured = &a
		return fmt.Errorf("REACHED-RUN")
	}
	root := &cobra.Command{Use: "kamal-proxy", SilenceUsage: true, SilenceErrors: true}
	root.AddCommand(dc.cmd)
	root.SetArgs(c.args())
	root.SetOut(discard{})
	root.SetErr(discard{})
	err := root.Execute()
	got := c20Classify(err)
	wants := c.wantRefusals()
	desc := strings.Join(c.args(), " ")
	if len(wants) > 0 {
		want := wants[0]
		ok := false
		for _, x := range wants {
			if x == got {
				ok, want = true, x
			}
		}
		if !ok {
			res.failf("deploy-validation:"+want, "%q: want a refusal out of %q, got %q (contacted proxy: %v)", desc, wants, got, contacted)
			return
		}
		if contacted {
			res.failf("deploy-validation-late", "%q: refused with %q only after the command's run step (which contacts the proxy)", desc, got)
			return
		}
		res.NonTrivial = true
		res.label("refused:" + want)
		return
	}
	if got != "reached-run" || captured == nil {
		res.failf("deploy-validation-spurious", "%q: must be accepted, got %q", desc, got)
		return
	}
	// forward-headers default = not tls
	wantFwd := c.TLS != 1
	switch c.Forward {
	case 1:
		wantFwd = true
	case 2:
		wantFwd = false
	}
	if captured.TargetOptions.ForwardHeaders != wantFwd {
		res.failf("forward-headers-default", "%q: ForwardHeaders=%v, want %v", desc, captured.TargetOptions.ForwardHeaders, wantFwd)
		return
	}
	// normalised bindings as sent
	wantPrefixes := map[int]string{0: "[/]", 1: "[/]", 2: "[/api]", 3: "[/api /]", 4: "[/api]"}[c.Prefix]
	if fmt.Sprint(captured.ServiceOptions.PathPrefixes) != wantPrefixes {
		res.failf("prefix-normalisation", "%q: path prefixes sent as %v, want %s", desc, captured.ServiceOptions.PathPrefixes, wantPrefixes)
		return
	}
	wantHosts := map[int]string{0: "[]", 1: "[app.example.com]", 2: "[app.example.com www.example.com]"}[c.Host]
	if fmt.Sprint(captured.ServiceOptions.Hosts) != wantHosts {
		res.failf("host-normalisation", "%q: hosts sent as %q, want %s", desc, captured.ServiceOptions.Hosts, wantHosts)
		return
	}
	if captured.ServiceOptions.TLSEnabled != (c.TLS == 1) || captured.TargetOptions.BufferRequests != (c.BufReq == 1) || captured.TargetOptions.BufferResponses != (c.BufResp == 1) {
		res.failf("flag-value", "%q: tls=%v buffer-requests=%v buffer-responses=%v", desc, captured.ServiceOptions.TLSEnabled, captured.TargetOptions.BufferRequests, captured.TargetOptions.BufferResponses)
		return
	}
	res.label("accepted")
	return res
}

type discard struct{}

func (discard) Write(p []byte) (int, error) { return len(p), nil }

func TestVF_C20_DeployValidation(t *testing.T) {
	vfEnumerate(t, vfEnum[c20DeployCase]{id: "C20", cases: c20DeployCases, run: c20DeployRun})
}
