//go:build verif && go1.25

package cmd

// C20 (d) / C17 — what the operator types is what the proxy is asked to do. Every client command is
// executed in-process (the real cobra commands, the real RPC client) against a fake proxy: a net/rpc
// server on a unix socket that records the method called and its arguments, and answers with an error
// when the plan says so. Oracles:
//   - exactly one call, to the command's method, naming the service given on the command line;
//   - every flag given on the command line arrives in the argument field it is documented for, with the
//     value given (durations, sizes, booleans, repeated and comma-separated lists);
//   - metamorphic: adding one flag changes no other field (documented dependents aside);
//   - the command reports an error exactly when the proxy does.

import (
	"fmt"
	"net"
	"net/rpc"
	"os"
	"path/filepath"
	"reflect"
	"sort"
	"strings"
	"sync"
	"testing"
	"time"

	"github.com/spf13/cobra"
	"pgregory.net/rapid"

	"github.com/basecamp/kamal-proxy/internal/server"
)

type cliFlag struct {
	Name  string `json:"name"`
	Value string `json:"value"`
}

type cliPlan struct {
	Cmd   string    `json:"cmd"` // deploy pause stop resume remove rollout-deploy rollout-set rollout-stop list
	Svc   string    `json:"svc"`
	Flags []cliFlag `json:"flags"`
	Fail  bool      `json:"fail"` // the proxy answers with an error
	Drop  int       `json:"drop"` // metamorphic partner: the same command without Flags[Drop] (-1: none)
}

type cliFakeCall struct {
	Method string
	Args   any
}

type cliFake struct {
	mu    sync.Mutex
	calls []cliFakeCall
	fail  bool
}

func (f *cliFake) record(method string, args any) error {
	f.mu.Lock()
	defer f.mu.Unlock()
	f.calls = append(f.calls, cliFakeCall{method, args})
	if f.fail {
		return fmt.Errorf("the proxy says no")
	}
	return nil
}

func (f *cliFake) Deploy(a server.DeployArgs, r *bool) error { return f.record("Deploy", a) }
func (f *cliFake) Pause(a server.PauseArgs, r *bool) error   { return f.record("Pause", a) }
func (f *cliFake) Stop(a server.StopArgs, r *bool) error     { return f.record("Stop", a) }
func (f *cliFake) Resume(a server.ResumeArgs, r *bool) error { return f.record("Resume", a) }
func (f *cliFake) Remove(a server.RemoveArgs, r *bool) error { return f.record("Remove", a) }
func (f *cliFake) List(a bool, r *server.ListResponse) error { return f.record("List", a) }
func (f *cliFake) RolloutDeploy(a server.RolloutDeployArgs, r *bool) error {
	return f.record("RolloutDeploy", a)
}
func (f *cliFake) RolloutSet(a server.RolloutSetArgs, r *bool) error {
	return f.record("RolloutSet", a)
}
func (f *cliFake) RolloutStop(a server.RolloutStopArgs, r *bool) error {
	return f.record("RolloutStop", a)
}

var (
	cliOnce sync.Once
	cliSrv  *cliFake
	cliDir  string
)

func cliStartFake() (*cliFake, error) {
	var err error
	cliOnce.Do(func() {
		cliDir, err = os.MkdirTemp(os.Getenv("VF_SCRATCH"), "cli-")
		if err != nil {
			return
		}
		os.Setenv("XDG_RUNTIME_DIR", cliDir)
		os.Setenv("HOME", cliDir)
		cliSrv = &cliFake{}
		srv := rpc.NewServer()
		if err = srv.RegisterName("kamal-proxy", cliSrv); err != nil {
			return
		}
		var l net.Listener
		l, err = net.Listen("unix", filepath.Join(cliDir, "kamal-proxy.sock"))
		if err != nil {
			return
		}
		go func() {
			for {
				c, err := l.Accept()
				if err != nil {
					return
				}
				go srv.ServeConn(c)
			}
		}()
	})
	return cliSrv, err
}

// ---- the documented meaning of every flag: which argument field it sets (path into the args struct)

type cliFlagSpec struct {
	kind  string // duration int bool string slice
	field string // dotted path into the argument struct
}

var cliFlagTable = map[string]map[string]cliFlagSpec{
	"deploy": {
		"target":                {"slice", "TargetURLs"},
		"host":                  {"slice", "ServiceOptions.Hosts"},
		"path-prefix":           {"prefixes", "ServiceOptions.PathPrefixes"},
		"strip-path-prefix":     {"bool", "ServiceOptions.StripPrefix"},
		"tls-redirect":          {"bool", "ServiceOptions.TLSRedirect"},
		"error-pages":           {"string", "ServiceOptions.ErrorPagePath"},
		"deploy-timeout":        {"duration", "DeployTimeout"},
		"drain-timeout":         {"duration", "DrainTimeout"},
		"health-check-interval": {"duration", "TargetOptions.HealthCheckConfig.Interval"},
		"health-check-timeout":  {"duration", "TargetOptions.HealthCheckConfig.Timeout"},
		"health-check-path":     {"string", "TargetOptions.HealthCheckConfig.Path"},
		"target-timeout":        {"duration", "TargetOptions.ResponseTimeout"},
		"buffer-requests":       {"bool", "TargetOptions.BufferRequests"},
		"buffer-responses":      {"bool", "TargetOptions.BufferResponses"},
		"buffer-memory":         {"int", "TargetOptions.MaxMemoryBufferSize"},
		"max-request-body":      {"int", "TargetOptions.MaxRequestBodySize"},
		"max-response-body":     {"int", "TargetOptions.MaxResponseBodySize"},
		"log-request-header":    {"slice", "TargetOptions.LogRequestHeaders"},
		"log-response-header":   {"slice", "TargetOptions.LogResponseHeaders"},
		"forward-headers":       {"bool", "TargetOptions.ForwardHeaders"},
		"tls":                   {"bool", "ServiceOptions.TLSEnabled"},
		"tls-staging":           {"staging", "ServiceOptions.ACMEDirectory"},
		"tls-certificate-path":  {"string", "ServiceOptions.TLSCertificatePath"},
		"tls-private-key-path":  {"string", "ServiceOptions.TLSPrivateKeyPath"},
	},
	"pause":          {"drain-timeout": {"duration", "DrainTimeout"}, "max-pause": {"duration", "PauseTimeout"}},
	"stop":           {"drain-timeout": {"duration", "DrainTimeout"}, "message": {"string", "Message"}},
	"rollout-deploy": {"target": {"slice", "TargetURLs"}, "deploy-timeout": {"duration", "DeployTimeout"}, "drain-timeout": {"duration", "DrainTimeout"}},
	"rollout-set":    {"percent": {"int", "Percentage"}, "list": {"slice", "Allowlist"}},
	"resume":         {}, "remove": {}, "rollout-stop": {}, "list": {},
}

// cliDependents: fields a flag is documented to influence besides its own (TLS turns header forwarding off by
// default and names the certificate cache; the staging flag only matters with TLS).
var cliDependents = map[string][]string{
	"tls":         {"ServiceOptions.ACMECachePath", "ServiceOptions.ACMEDirectory", "TargetOptions.ForwardHeaders"},
	"tls-staging": {"ServiceOptions.ACMEDirectory"},
}

// cliOffValues: what a field must hold when its flag is NOT given - only for fields whose "not asked for" value is
// part of what the properties say (nothing the operator did not ask for is switched on; a split without --percent
// includes nobody by percentage; no message means the built-in page's own text). Timeouts, intervals and sizes have
// tunable defaults that no property pins, and are not listed.
var cliOffValues = map[string]map[string]string{
	"deploy": {"tls": "false", "buffer-requests": "false", "buffer-responses": "false", "max-request-body": "0", "max-response-body": "0",
		"log-request-header": "[]", "log-response-header": "[]", "error-pages": "", "strip-path-prefix": "true",
		"tls-certificate-path": "", "tls-private-key-path": ""},
	"stop":        {"message": ""},
	"rollout-set": {"percent": "0", "list": "[]"},
}

var cliMethod = map[string]string{"deploy": "Deploy", "pause": "Pause", "stop": "Stop", "resume": "Resume", "remove": "Remove",
	"rollout-deploy": "RolloutDeploy", "rollout-set": "RolloutSet", "rollout-stop": "RolloutStop", "list": "List"}

func cliGenValue(t *rapid.T, kind, flag string) string {
	switch kind {
	case "duration":
		return rapid.SampledFrom([]string{"1s", "250ms", "2m", "7s", "1h30m", "45s", "100ms", "3m20s"}).Draw(t, "dur")
	case "int":
		if flag == "percent" {
			return fmt.Sprint(rapid.IntRange(0, 100).Draw(t, "pct"))
		}
		return fmt.Sprint(rapid.SampledFrom([]int{1, 512, 4096, 1048576, 10485760, 77}).Draw(t, "int"))
	case "bool", "staging":
		return rapid.SampledFrom([]string{"true", "false"}).Draw(t, "bool")
	case "string":
		switch flag {
		case "tls-certificate-path":
			return "/etc/ssl/site.pem"
		case "tls-private-key-path":
			return "/etc/ssl/site.key"
		case "health-check-path":
			return rapid.SampledFrom([]string{"/up", "/healthz", "/status/ready"}).Draw(t, "path")
		case "message":
			return rapid.SampledFrom([]string{"back at 5", "maintenance <b>now</b>", "x"}).Draw(t, "msg")
		}
		return rapid.SampledFrom([]string{"/srv/pages", "/tmp/errors"}).Draw(t, "str")
	case "prefixes":
		return rapid.SampledFrom([]string{"/api", "/app,/admin", "/", "/api/,/"}).Draw(t, "prefixes")
	case "slice":
		switch flag {
		case "target":
			return rapid.SampledFrom([]string{"web-1:3000", "web-1:3000,web-2:3000", "10.0.0.5:80"}).Draw(t, "targets")
		case "host":
			return rapid.SampledFrom([]string{"app.example.com", "app.example.com,www.example.com", "*.example.com"}).Draw(t, "hosts")
		case "list":
			return rapid.SampledFrom([]string{"alice", "alice,bob", "1,2,3"}).Draw(t, "allow")
		}
		return rapid.SampledFrom([]string{"X-Request-Source", "Accept,User-Agent", "x-custom"}).Draw(t, "headers")
	}
	panic(kind)
}

// cliFocus: per property, the commands and flags its statement is about. The property's own layer always gives
// at least one of those flags (the C20 layer draws from everything).
var cliFocus = map[string]struct{ cmds, flags []string }{
	"C01": {[]string{"deploy", "rollout-deploy"}, []string{"deploy-timeout", "target"}},
	"C03": {[]string{"deploy", "rollout-deploy", "pause", "stop"}, []string{"drain-timeout"}},
	"C07": {[]string{"pause"}, []string{"max-pause", "drain-timeout"}},
	"C08": {[]string{"stop"}, []string{"message", "drain-timeout"}},
	"C09": {[]string{"deploy"}, []string{"health-check-interval", "health-check-timeout", "health-check-path"}},
	"C10": {[]string{"rollout-set", "rollout-deploy"}, []string{"percent", "list", "target"}},
	"C13": {[]string{"deploy"}, []string{"forward-headers", "strip-path-prefix", "path-prefix", "host"}},
	"C14": {[]string{"deploy"}, []string{"buffer-requests", "buffer-responses", "buffer-memory", "max-request-body", "max-response-body"}},
	"C15": {[]string{"deploy"}, []string{"target-timeout", "error-pages"}},
	"C16": {[]string{"deploy"}, []string{"tls-redirect", "host", "path-prefix", "tls", "tls-staging", "tls-certificate-path"}},
	"C17": {[]string{"deploy", "rollout-deploy", "pause", "stop"}, []string{"deploy-timeout", "drain-timeout"}},
	"C19": {[]string{"deploy"}, []string{"log-request-header", "log-response-header"}},
}

func cliGenFor(id string) func(t *rapid.T) cliPlan {
	return func(t *rapid.T) cliPlan { return cliGenFocus(t, id) }
}

func cliGen(t *rapid.T) cliPlan { return cliGenFocus(t, "") }

func cliGenFocus(t *rapid.T, id string) cliPlan {
	p := cliPlan{Svc: rapid.SampledFrom([]string{"web", "api", "my-service"}).Draw(t, "svc"), Drop: -1}
	cmds := []string{"deploy", "deploy", "deploy", "pause", "stop", "resume", "remove", "rollout-deploy", "rollout-set", "rollout-stop", "list"}
	focus, focused := cliFocus[id]
	if focused {
		cmds = focus.cmds
	}
	p.Cmd = rapid.SampledFrom(cmds).Draw(t, "cmd")
	p.Fail = rapid.IntRange(0, 3).Draw(t, "fail") == 0
	table := cliFlagTable[p.Cmd]
	var names []string
	for n := range table {
		names = append(names, n)
	}
	sort.Strings(names)
	set := map[string]bool{}
	add := func(n string) {
		if !set[n] {
			set[n] = true
			p.Flags = append(p.Flags, cliFlag{Name: n, Value: cliGenValue(t, table[n].kind, n)})
		}
	}
	if p.Cmd == "deploy" || p.Cmd == "rollout-deploy" {
		add("target") // required
	}
	if p.Cmd == "rollout-set" {
		add(rapid.SampledFrom([]string{"percent", "list"}).Draw(t, "required-one-of")) // one of the two is required
	}
	if focused {
		var mine []string
		for _, f := range focus.flags {
			if _, ok := table[f]; ok {
				mine = append(mine, f)
			}
		}
		n := rapid.SampledFrom(mine).Draw(t, "focus-flag")
		switch n {
		case "max-request-body":
			add("buffer-requests")
		case "max-response-body":
			add("buffer-responses")
		case "tls-certificate-path":
			add("tls-private-key-path")
		case "tls-private-key-path":
			add("tls-certificate-path")
		}
		add(n)
	}
	if len(names) > 0 {
		k := rapid.IntRange(0, min(len(names), 6)).Draw(t, "nflags")
		for i := 0; i < k; i++ {
			n := rapid.SampledFrom(names).Draw(t, "flag")
			switch n {
			case "max-request-body":
				add("buffer-requests") // the CLI refuses the limit without the flag being given
			case "max-response-body":
				add("buffer-responses")
			case "tls-certificate-path":
				add("tls-private-key-path") // the two are required together
			case "tls-private-key-path":
				add("tls-certificate-path")
			}
			add(n)
		}
	}
	tlsOn := false
	for i, f := range p.Flags {
		if f.Name == "tls" && f.Value == "true" {
			tlsOn = true
			_ = i
		}
	}
	if tlsOn {
		// the CLI accepts --tls only with a host and for a service that includes the root path
		add("host")
		for i, f := range p.Flags {
			if f.Name == "path-prefix" && !strings.Contains(","+f.Value+",", ",/,") && !strings.Contains(","+f.Value+",", ",/api/,/,") {
				p.Flags[i].Value = f.Value + ",/"
			}
		}
	}
	// the metamorphic partner drops one optional flag (not one another flag depends on)
	var droppable []int
	for i, f := range p.Flags {
		if f.Name == "target" || p.Cmd == "rollout-set" && len(p.Flags) == 1 || strings.HasPrefix(f.Name, "tls-certificate") || strings.HasPrefix(f.Name, "tls-private") ||
			tlsOn && (f.Name == "host" || f.Name == "path-prefix") || f.Name == "buffer-requests" && set["max-request-body"] || f.Name == "buffer-responses" && set["max-response-body"] {
			continue
		}
		droppable = append(droppable, i)
	}
	if len(droppable) > 0 && rapid.Bool().Draw(t, "partner") {
		p.Drop = rapid.SampledFrom(droppable).Draw(t, "drop")
	}
	return p
}

func cliHasFlag(p cliPlan, name string) bool {
	for _, f := range p.Flags {
		if f.Name == name {
			return true
		}
	}
	return false
}

func (p cliPlan) flag(name string) string {
	for _, f := range p.Flags {
		if f.Name == name {
			return f.Value
		}
	}
	return ""
}

func (p cliPlan) argv(skip int) []string {
	var a []string
	switch p.Cmd {
	case "rollout-deploy", "rollout-set", "rollout-stop":
		a = []string{"rollout", strings.TrimPrefix(p.Cmd, "rollout-"), p.Svc}
	case "list":
		a = []string{"list"}
	default:
		a = []string{p.Cmd, p.Svc}
	}
	for i, f := range p.Flags {
		if i == skip {
			continue
		}
		spec := cliFlagTable[p.Cmd][f.Name]
		switch {
		case spec.kind == "bool" || spec.kind == "staging":
			a = append(a, "--"+f.Name+"="+f.Value)
		case (spec.kind == "slice" || spec.kind == "prefixes") && i%2 == 1:
			for _, v := range strings.Split(f.Value, ",") { // repeated flag instead of a comma-separated value
				a = append(a, "--"+f.Name, v)
			}
		default:
			a = append(a, "--"+f.Name, f.Value)
		}
	}
	return a
}

func cliField(args any, path string) (any, bool) {
	v := reflect.ValueOf(args)
	for _, name := range strings.Split(path, ".") {
		if v.Kind() != reflect.Struct {
			return nil, false
		}
		v = v.FieldByName(name)
		if !v.IsValid() {
			return nil, false
		}
	}
	return v.Interface(), true
}

func cliWant(spec cliFlagSpec, value string) string {
	switch spec.kind {
	case "duration":
		d, _ := time.ParseDuration(value)
		return fmt.Sprint(d)
	case "slice":
		return fmt.Sprint(strings.Split(value, ","))
	case "prefixes":
		var out []string
		for _, x := range strings.Split(value, ",") {
			out = append(out, "/"+strings.Trim(x, "/"))
		}
		return fmt.Sprint(out)
	}
	return value
}

// cliFlatten lists every leaf field of the argument struct as path=value.
func cliFlatten(prefix string, v reflect.Value, out map[string]string) {
	if v.Kind() == reflect.Struct {
		for i := 0; i < v.NumField(); i++ {
			if v.Type().Field(i).IsExported() {
				cliFlatten(prefix+v.Type().Field(i).Name+".", v.Field(i), out)
			}
		}
		return
	}
	out[strings.TrimSuffix(prefix, ".")] = fmt.Sprint(v.Interface())
}

func cliExec(fake *cliFake, argv []string, fail bool) (call *cliFakeCall, ncalls int, err error) {
	fake.mu.Lock()
	fake.calls, fake.fail = nil, fail
	fake.mu.Unlock()
	globalConfig = server.Config{}
	root := &cobra.Command{Use: "kamal-proxy", SilenceUsage: true, SilenceErrors: true}
	root.AddCommand(newDeployCommand().cmd, newRemoveCommand().cmd, newPauseCommand().cmd, newStopCommand().cmd,
		newResumeCommand().cmd, newListCommand().cmd, newRolloutCommand().cmd)
	root.SetArgs(argv)
	root.SetOut(discard{})
	root.SetErr(discard{})
	old := os.Stdout
	if devnull, derr := os.OpenFile(os.DevNull, os.O_WRONLY, 0); derr == nil { // `list` prints its table to stdout
		os.Stdout = devnull
		defer func() { os.Stdout = old; devnull.Close() }()
	}
	err = root.Execute()
	fake.mu.Lock()
	defer fake.mu.Unlock()
	ncalls = len(fake.calls)
	if ncalls > 0 {
		c := fake.calls[0]
		call = &c
	}
	return
}

func cliRun(t *testing.T, p cliPlan) (res vfResult) {
	fake, err := cliStartFake()
	if err != nil {
		res.failf("harness", "fake proxy: %v", err)
		return
	}
	argv := p.argv(-1)
	desc := "kamal-proxy " + strings.Join(argv, " ")
	call, n, err := cliExec(fake, argv, p.Fail)
	if n != 1 || call == nil {
		res.failf("cli-calls", "%s: %d calls reached the proxy (error %v), want exactly one", desc, n, err)
		return
	}
	if call.Method != cliMethod[p.Cmd] {
		res.failf("cli-method", "%s: called %s, want %s", desc, call.Method, cliMethod[p.Cmd])
		return
	}
	if (err != nil) != p.Fail {
		res.failf("cli-exit-status", "%s: the proxy %s, the command returned error %v", desc, map[bool]string{true: "reported an error", false: "accepted"}[p.Fail], err)
		return
	}
	if p.Cmd != "list" {
		if svc, ok := cliField(call.Args, "Service"); !ok || svc != p.Svc {
			res.failf("cli-service", "%s: the call names service %v, want %q", desc, svc, p.Svc)
			return
		}
	}
	for _, f := range p.Flags {
		spec := cliFlagTable[p.Cmd][f.Name]
		got, ok := cliField(call.Args, spec.field)
		if !ok {
			res.Excluded = "argument struct has no field " + spec.field + " (layout changed; inconclusive)"
			return
		}
		want := cliWant(spec, f.Value)
		if spec.kind == "staging" {
			want = ""
			if f.Value == "true" && p.flag("tls") == "true" {
				want = server.ACMEStagingDirectoryURL // the staging directory is only named when TLS is on
			}
		}
		if fmt.Sprint(got) != want {
			res.failf("cli-flag:"+p.Cmd+":"+f.Name, "%s: --%s %s must arrive as %s=%s, the proxy was sent %v", desc, f.Name, f.Value, spec.field, want, got)
			return
		}
	}
	for name, off := range cliOffValues[p.Cmd] {
		if p.flag(name) != "" || cliHasFlag(p, name) {
			continue
		}
		spec := cliFlagTable[p.Cmd][name]
		got, ok := cliField(call.Args, spec.field)
		if !ok {
			continue
		}
		if fmt.Sprint(got) != off {
			res.failf("cli-not-asked-for:"+p.Cmd+":"+name, "%s: --%s was not given, yet the proxy was sent %s=%v (want %s)", desc, name, spec.field, got, off)
			return
		}
	}
	if p.Drop >= 0 {
		// the same command without one flag: nothing but that flag's field (and its documented dependents) differs
		dropped := p.Flags[p.Drop]
		argv2 := p.argv(p.Drop)
		call2, n2, _ := cliExec(fake, argv2, false)
		if n2 != 1 || call2 == nil {
			res.failf("cli-calls", "kamal-proxy %s: %d calls reached the proxy, want exactly one", strings.Join(argv2, " "), n2)
			return
		}
		a, b := map[string]string{}, map[string]string{}
		cliFlatten("", reflect.ValueOf(call.Args), a)
		cliFlatten("", reflect.ValueOf(call2.Args), b)
		own := cliFlagTable[p.Cmd][dropped.Name].field
		for k, v := range a {
			if k == own || b[k] == v {
				continue
			}
			dependent := false
			for _, d := range cliDependents[dropped.Name] {
				dependent = dependent || d == k
			}
			if dependent {
				continue
			}
			res.failf("cli-crosstalk:"+p.Cmd+":"+dropped.Name, "%s: giving --%s also changed %s (%s with it, %s without)", desc, dropped.Name, k, v, b[k])
			return
		}
		res.label("metamorphic-partner")
	}
	res.NonTrivial = len(p.Flags) >= 2 || p.Fail
	res.label("cmd:" + p.Cmd)
	if p.Fail {
		res.label("proxy-reports-error")
	}
	return res
}

func TestVF_C20_Args(t *testing.T) {
	vfCheck(t, vfProp[cliPlan]{id: "C20", gen: cliGen, run: cliRun})
}

// One layer per property whose statement speaks of an operator-given option: the option must reach the proxy.
func cliArgsTest(t *testing.T, id string) {
	vfCheck(t, vfProp[cliPlan]{id: id, gen: cliGenFor(id), run: cliRun})
}

func TestVF_C01_Args(t *testing.T) { cliArgsTest(t, "C01") }
func TestVF_C03_Args(t *testing.T) { cliArgsTest(t, "C03") }
func TestVF_C07_Args(t *testing.T) { cliArgsTest(t, "C07") }
func TestVF_C08_Args(t *testing.T) { cliArgsTest(t, "C08") }
func TestVF_C09_Args(t *testing.T) { cliArgsTest(t, "C09") }
func TestVF_C10_Args(t *testing.T) { cliArgsTest(t, "C10") }
func TestVF_C13_Args(t *testing.T) { cliArgsTest(t, "C13") }
func TestVF_C14_Args(t *testing.T) { cliArgsTest(t, "C14") }
func TestVF_C15_Args(t *testing.T) { cliArgsTest(t, "C15") }
func TestVF_C16_Args(t *testing.T) { cliArgsTest(t, "C16") }
func TestVF_C17_Args(t *testing.T) { cliArgsTest(t, "C17") }
func TestVF_C19_Args(t *testing.T) { cliArgsTest(t, "C19") }
