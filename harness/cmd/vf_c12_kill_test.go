//go:build verif && go1.25

package cmd

// C12 (b) — the built binary, killed for real. Each case is a sequence of incarnations of
// `kamal-proxy run` sharing one state directory. An incarnation runs a generated list of client
// commands and is killed with SIGKILL either by strace's syscall fault injection (on entering the
// K-th syscall of a chosen class of one of its threads: openat, write, close, renameat, fsync, ...)
// or, when the injection never fires, by the harness while the proxy is idle. After every death
// the state file is read back and must be a complete snapshot of the configuration before or
// after the command that was in flight (of the configuration in force when no command was); the
// next incarnation starts from that file and its `list` output must show the same configuration.

import (
	"bytes"
	"encoding/json"
	"fmt"
	"net"
	"net/http"
	"net/http/httptest"
	"os"
	"os/exec"
	"path/filepath"
	"regexp"
	"sort"
	"strings"
	"sync"
	"syscall"
	"testing"
	"time"

	"pgregory.net/rapid"
)

type c12kInc struct {
	Cmds  []c20Cmd `json:"cmds"`
	Class string   `json:"class"` // syscall class the kill is injected on; "none" = killed while idle at the end
	K     int      `json:"k"`     // the K-th such syscall of a thread
	Procs int      `json:"procs"` // GOMAXPROCS of the proxy
	Boot  bool     `json:"boot"`  // true: syscalls are counted from exec (kills during start-up and restore); false: from the moment the proxy accepts commands
}

type c12kPlan struct {
	Incs []c12kInc `json:"incs"`
}

var c12kClasses = map[string]string{
	"openat": "openat,openat2",
	"rename": "rename,renameat,renameat2",
	"close":  "close",
	"write":  "write",
	"fsync":  "fsync,fdatasync",
	"file":   "openat,openat2,rename,renameat,renameat2,close,fsync,fdatasync,unlink,unlinkat,ftruncate,fchmod,fchmodat,linkat",
	"any":    "openat,openat2,rename,renameat,renameat2,close,fsync,fdatasync,unlink,unlinkat,ftruncate,fchmod,fchmodat,linkat,write,read,futex,epoll_pwait",
}

// c12kSvc extends the list model with the rollout state the state file carries.
type c12kSvc struct {
	c20MSvc
	rolloutTarget int
	split         bool
	pct           int
}

type c12kModel map[string]*c12kSvc

func (m c12kModel) clone() c12kModel {
	out := c12kModel{}
	for n, s := range m {
		c := *s
		out[n] = &c
	}
	return out
}

func (m c12kModel) base() map[string]*c20MSvc {
	out := map[string]*c20MSvc{}
	for n, s := range m {
		out[n] = &s.c20MSvc
	}
	return out
}

// apply runs the command on the model; fail = the command is expected to report an error.
func (m c12kModel) apply(c c20Cmd) (fail bool) {
	b := m.base()
	fail = c20Apply(b, c)
	if fail {
		return true
	}
	for n := range m {
		if b[n] == nil {
			delete(m, n)
		}
	}
	for n, s := range b {
		if m[n] == nil {
			m[n] = &c12kSvc{c20MSvc: *s}
		}
	}
	s := m[c.Svc]
	switch c.Op {
	case "rollout-deploy":
		s.rolloutTarget = c.Targets[0]
	case "rollout-set":
		s.split, s.pct = true, c.Pct
	case "rollout-stop":
		s.split = false
	}
	return false
}

// summary is what is compared between the state file and the model. The TLS flag is the effective one: a service on a
// sub-path carries the setting of the root service of its host, and that is what the proxy saves.
func (m c12kModel) summary(tname func(int) string) []string {
	var out []string
	b := m.base()
	for n, s := range m {
		var ts []string
		for _, t := range s.targets {
			ts = append(ts, tname(t))
		}
		rt := ""
		if s.rollout {
			rt = tname(s.rolloutTarget)
		}
		split := "nosplit"
		if s.split {
			split = fmt.Sprintf("pct=%d", s.pct)
		}
		out = append(out, fmt.Sprintf("%s hosts=%v paths=%v targets=%v rollout=%s state=%s tls=%v %s", n, append([]string{}, s.hosts...), c20NormPrefixes(s.prefixes), ts, rt, s.state, c20EffTLS(b, &s.c20MSvc), split))
	}
	sort.Strings(out)
	return out
}

type c12kFileSvc struct {
	Name    string `json:"name"`
	Options struct {
		Hosts        []string `json:"hosts"`
		PathPrefixes []string `json:"path_prefixes"`
		TLSEnabled   bool     `json:"tls_enabled"`
	} `json:"options"`
	ActiveTargets   []string `json:"active_targets"`
	RolloutTargets  []string `json:"rollout_targets"`
	PauseController *struct {
		State int `json:"state"`
	} `json:"pause_controller"`
	RolloutController *struct {
		Percentage int `json:"percentage"`
	} `json:"rollout_controller"`
}

// c12kReadFile: the summary of the state file; err != "" when it is not a complete JSON document.
func c12kReadFile(path string) (sum []string, raw string, absent bool, bad string) {
	b, err := os.ReadFile(path)
	if err != nil {
		if os.IsNotExist(err) {
			return nil, "", true, ""
		}
		return nil, "", false, err.Error()
	}
	raw = string(b)
	var svcs []c12kFileSvc
	dec := json.NewDecoder(bytes.NewReader(b))
	if err := dec.Decode(&svcs); err != nil {
		return nil, raw, false, "does not decode: " + err.Error()
	}
	if dec.More() {
		return nil, raw, false, "trailing data after the JSON document"
	}
	for _, s := range svcs {
		rt := ""
		if len(s.RolloutTargets) > 0 {
			rt = s.RolloutTargets[0]
		}
		state := "running"
		if s.PauseController != nil {
			state = map[int]string{0: "running", 1: "paused", 2: "stopped"}[s.PauseController.State]
		}
		split := "nosplit"
		if s.RolloutController != nil {
			split = fmt.Sprintf("pct=%d", s.RolloutController.Percentage)
		}
		hosts := append([]string{}, s.Options.Hosts...)
		sum = append(sum, fmt.Sprintf("%s hosts=%v paths=%v targets=%v rollout=%s state=%s tls=%v %s", s.Name, hosts, s.Options.PathPrefixes, s.ActiveTargets, rt, state, s.Options.TLSEnabled, split))
	}
	sort.Strings(sum)
	return sum, raw, false, ""
}

func c12kGen(t *rapid.T) c12kPlan {
	p := c12kPlan{}
	m := c12kModel{}
	ninc := rapid.IntRange(1, 3).Draw(t, "nincs")
	for ii := 0; ii < ninc; ii++ {
		inc := c12kInc{Procs: rapid.SampledFrom([]int{1, 1, 2, 4}).Draw(t, "procs")}
		inc.Class = rapid.SampledFrom([]string{"openat", "openat", "rename", "rename", "close", "write", "write", "file", "any", "none"}).Draw(t, "class")
		n := rapid.IntRange(1, 6).Draw(t, "ncmds")
		for i := 0; i < n; i++ {
			c := c20Cmd{Svc: rapid.SampledFrom(c20Names[:3]).Draw(t, "svc")}
			ops := []string{"deploy", "deploy", "deploy", "remove", "pause", "stop", "resume", "rollout-deploy", "rollout-set", "rollout-stop"}
			if len(m) == 0 {
				ops = []string{"deploy"}
			}
			c.Op = rapid.SampledFrom(ops).Draw(t, "op")
			if c.Op != "deploy" && m[c.Svc] == nil { // aim the command at a service that exists, most of the time
				var names []string
				for n := range m {
					names = append(names, n)
				}
				sort.Strings(names)
				if rapid.IntRange(0, 5).Draw(t, "miss") != 0 {
					c.Svc = rapid.SampledFrom(names).Draw(t, "svc2")
				}
			}
			switch c.Op {
			case "deploy":
				if rapid.IntRange(0, 2).Draw(t, "host?") != 0 {
					c.Hosts = []string{rapid.SampledFrom([]string{"a.example.com", "b.example.com", "*.example.com"}).Draw(t, "host")}
				}
				if rapid.IntRange(0, 2).Draw(t, "prefix?") == 0 {
					c.Prefix = []string{rapid.SampledFrom([]string{"/api", "/app"}).Draw(t, "prefix")}
				}
				tmin := 0
				if rapid.IntRange(0, 9).Draw(t, "dead") == 0 {
					tmin = -1
				}
				c.Targets = []int{rapid.IntRange(tmin, 2).Draw(t, "target")}
				if rapid.IntRange(0, 3).Draw(t, "two") == 0 {
					c.Targets = append(c.Targets, rapid.IntRange(0, 2).Draw(t, "target2"))
				}
				if len(c.Hosts) > 0 && len(c.Prefix) == 0 && !strings.Contains(c.Hosts[0], "*") && rapid.IntRange(0, 3).Draw(t, "tls") == 0 {
					c.TLS = true
				}
			case "rollout-deploy":
				c.Targets = []int{rapid.IntRange(0, 2).Draw(t, "target")}
			case "rollout-set":
				c.Pct = rapid.IntRange(0, 100).Draw(t, "pct")
			}
			m.apply(c)
			inc.Cmds = append(inc.Cmds, c)
		}
		// K: how many syscalls of the class a thread gets through before the kill. The classes differ
		// by an order of magnitude in how often they occur.
		kmax := map[string]int{"openat": n, "rename": n, "close": 4 * n, "write": 8 * n, "file": 6 * n, "any": 40 * n, "none": 1}[inc.Class]
		if inc.Class != "none" && rapid.IntRange(0, 3).Draw(t, "boot") == 0 {
			// (a proxy that restores without writing makes no rename and few writes before it accepts commands: a count
			// it does not reach during start-up is reached during the commands, which is as good a place to die)
			inc.Boot = true
			kmax = map[string]int{"openat": 20, "rename": 4, "close": 25, "write": 10, "file": 40, "any": 200}[inc.Class]
		}
		inc.K = rapid.IntRange(1, kmax).Draw(t, "k")
		p.Incs = append(p.Incs, inc)
	}
	return p
}

func c12kArgs(c c20Cmd, tname func(int) string) []string {
	var args []string
	switch c.Op {
	case "deploy":
		args = []string{"deploy", c.Svc, "--deploy-timeout", "3s", "--drain-timeout", "200ms", "--health-check-interval", "1h", "--health-check-timeout", "2s"}
		for _, tg := range c.Targets {
			if tg < 0 {
				args[3] = "300ms"
			}
			args = append(args, "--target", tname(tg))
		}
		for _, h := range c.Hosts {
			args = append(args, "--host", h)
		}
		for _, pf := range c.Prefix {
			args = append(args, "--path-prefix", pf)
		}
		if c.TLS {
			args = append(args, "--tls")
		}
	case "remove", "pause", "stop", "resume":
		args = []string{c.Op, c.Svc}
		if c.Op == "pause" || c.Op == "stop" {
			args = append(args, "--drain-timeout", "200ms")
		}
	case "rollout-deploy":
		args = []string{"rollout", "deploy", c.Svc, "--deploy-timeout", "3s", "--drain-timeout", "200ms", "--target", tname(c.Targets[0])}
	case "rollout-set":
		args = []string{"rollout", "set", c.Svc, "--percent", fmt.Sprint(c.Pct)}
	case "rollout-stop":
		args = []string{"rollout", "stop", c.Svc}
	case "list":
		args = []string{"list"}
	}
	return args
}

type c12kSyncBuf struct {
	mu sync.Mutex
	b  bytes.Buffer
}

func (b *c12kSyncBuf) Write(p []byte) (int, error) {
	b.mu.Lock()
	defer b.mu.Unlock()
	return b.b.Write(p)
}

func (b *c12kSyncBuf) String() string {
	b.mu.Lock()
	defer b.mu.Unlock()
	return b.b.String()
}

var c12kSpaces = regexp.MustCompile(`\s{2,}`)

func c12kListRows(out string) []string {
	rows := map[string][]string{}
	for li, line := range strings.Split(strings.TrimSpace(c20Ansi.ReplaceAllString(out, "")), "\n") {
		f := c12kSpaces.Split(strings.TrimSpace(line), -1)
		if li == 0 || len(f) < 6 {
			continue
		}
		rows[f[0]] = f[1:6]
	}
	return c20Sorted(rows)
}

func c12kWantRows(m c12kModel, tname func(int) string) []string {
	want := map[string][]string{}
	b := m.base()
	for n, s := range b {
		host := strings.Join(s.hosts, ",")
		if host == "" {
			host = "*"
		}
		var ts []string
		for _, tg := range s.targets {
			ts = append(ts, tname(tg))
		}
		tlsCol := "no"
		if c20EffTLS(b, s) {
			tlsCol = "yes"
		}
		want[n] = []string{host, strings.Join(c20NormPrefixes(s.prefixes), ","), strings.Join(ts, ","), s.state, tlsCol}
	}
	return c20Sorted(want)
}

func c12kRun(t *testing.T, p c12kPlan) (res vfResult) {
	bin := os.Getenv("VF_BINARY")
	if bin == "" {
		res.failf("harness", "VF_BINARY not set")
		return
	}
	strace, err := exec.LookPath("strace")
	if err != nil {
		res.Excluded = "strace not available (inconclusive)"
		return
	}
	dir, err := os.MkdirTemp(os.Getenv("VF_SCRATCH"), "kill-")
	if err != nil {
		res.failf("harness", "%v", err)
		return
	}
	defer os.RemoveAll(dir)
	env := append(os.Environ(), "HOME="+dir, "XDG_RUNTIME_DIR="+dir, "TMPDIR="+dir)
	var targets []*httptest.Server
	for i := 0; i < 3; i++ {
		idx := i
		s := httptest.NewServer(http.HandlerFunc(func(w http.ResponseWriter, r *http.Request) { fmt.Fprintf(w, "target%d", idx) }))
		defer s.Close()
		targets = append(targets, s)
	}
	// a target that never becomes healthy: a port that is bound for the whole case but never accepted from (a
	// merely "free" port can be taken by another test process meanwhile - that made a deploy succeed once)
	deadL, err := net.Listen("tcp", "127.0.0.1:0")
	if err != nil {
		res.failf("harness", "%v", err)
		return
	}
	defer deadL.Close()
	deadPort := deadL.Addr().(*net.TCPAddr).Port
	tname := func(i int) string {
		if i < 0 {
			return fmt.Sprintf("127.0.0.1:%d", deadPort)
		}
		return strings.TrimPrefix(targets[i].URL, "http://")
	}
	statePath := filepath.Join(dir, ".config", "kamal-proxy", "kamal-proxy.state")
	cli := func(args ...string) (int, string, string, error) {
		cmd := exec.Command(bin, args...)
		cmd.Env = env
		var so, se bytes.Buffer
		cmd.Stdout, cmd.Stderr = &so, &se
		err := cmd.Run()
		if err != nil {
			if ee, ok := err.(*exec.ExitError); ok {
				return ee.ExitCode(), so.String(), se.String(), nil
			}
			return -1, "", "", err
		}
		return 0, so.String(), se.String(), nil
	}

	m := c12kModel{}
	killsInFlight, killsIdle, killsStartup := 0, 0, 0
	// one more incarnation than planned: it only restores and lists, and is killed idle
	incs := append(append([]c12kInc{}, p.Incs...), c12kInc{Class: "none", Procs: 2})
	for ii, inc := range incs {
		httpPort, httpsPort := c20FreePort(), c20FreePort()
		runArgs := []string{"run", "--http-port", fmt.Sprint(httpPort), "--https-port", fmt.Sprint(httpsPort)}
		var proxy *exec.Cmd
		injectArgs := []string{"-f", "-o", "/dev/null", "-e", "trace=" + c12kClasses[inc.Class], "-e",
			fmt.Sprintf("inject=%s:signal=SIGKILL:when=%d", c12kClasses[inc.Class], inc.K)}
		if inc.Class == "none" || !inc.Boot {
			proxy = exec.Command(bin, runArgs...)
		} else {
			proxy = exec.Command(strace, append(append(injectArgs, bin), runArgs...)...)
		}
		var out bytes.Buffer
		proxy.Env = append(append([]string{}, env...), fmt.Sprintf("GOMAXPROCS=%d", inc.Procs))
		proxy.Stdout, proxy.Stderr = &out, &out
		proxy.SysProcAttr = &syscall.SysProcAttr{Setpgid: true}
		if err := proxy.Start(); err != nil {
			res.failf("harness", "start proxy: %v", err)
			return
		}
		dead := make(chan struct{})
		go func() { proxy.Wait(); close(dead) }()
		isDead := func(wait time.Duration) bool {
			select {
			case <-dead:
				return true
			case <-time.After(wait):
				return false
			}
		}
		kill := func() {
			syscall.Kill(-proxy.Process.Pid, syscall.SIGKILL)
			<-dead
		}
		desc := fmt.Sprintf("incarnation %d (kill on %s #%d counted from %s, GOMAXPROCS=%d)", ii, inc.Class, inc.K, map[bool]string{true: "exec", false: "the first command"}[inc.Boot], inc.Procs)

		// allowed: the configurations the state file may describe once this incarnation is dead
		allowed := []c12kModel{m}
		inFlight := ""
		started := false
		deadline := time.Now().Add(20 * time.Second)
		for !isDead(0) {
			code, so, _, err := cli("list")
			if err != nil {
				kill()
				res.failf("harness", "run list: %v", err)
				return
			}
			if code == 0 {
				started = true
				// the restored configuration is the one the previous incarnation left
				if got, want := c12kListRows(so), c12kWantRows(m, tname); fmt.Sprint(got) != fmt.Sprint(want) && !isDead(0) {
					kill()
					res.failf("restored-configuration-differs", "%s: after restoring %s `list` prints %v, the configuration in force before the kill was %v", desc, statePath, got, want)
					return
				}
				break
			}
			if time.Now().After(deadline) {
				kill()
				res.Excluded = "proxy did not start within 20 s (inconclusive)"
				return
			}
			time.Sleep(10 * time.Millisecond)
		}
		if !started {
			killsStartup++
		}
		var tracer *exec.Cmd
		if started && inc.Class != "none" && !inc.Boot {
			// attach the injector now: its counters start with the first command
			var terr c12kSyncBuf
			tracer = exec.Command(strace, append(injectArgs, "-p", fmt.Sprint(proxy.Process.Pid))...)
			tracer.Stderr = &terr
			tracer.SysProcAttr = &syscall.SysProcAttr{Setpgid: true}
			if err := tracer.Start(); err != nil {
				kill()
				res.failf("harness", "start strace: %v", err)
				return
			}
			tdone := make(chan struct{})
			go func() { tracer.Wait(); close(tdone) }()
			defer func() { syscall.Kill(-tracer.Process.Pid, syscall.SIGKILL); <-tdone }()
			attachDeadline := time.Now().Add(10 * time.Second)
			for !strings.Contains(terr.String(), "attached") {
				if isDead(0) {
					break
				}
				select {
				case <-tdone:
					kill()
					res.Excluded = "strace could not attach (inconclusive): " + strings.TrimSpace(terr.String())
					return
				default:
				}
				if time.Now().After(attachDeadline) {
					kill()
					res.Excluded = "strace did not attach within 10 s (inconclusive)"
					return
				}
				time.Sleep(2 * time.Millisecond)
			}
		}
		if started {
			for i, c := range inc.Cmds {
				if isDead(0) {
					break
				}
				after := m.clone()
				wantFail := after.apply(c)
				args := c12kArgs(c, tname)
				code, _, se, err := cli(args...)
				if err != nil {
					kill()
					res.failf("harness", "run %v: %v", args, err)
					return
				}
				step := fmt.Sprintf("%s step %d: kamal-proxy %s", desc, i, strings.Join(args, " "))
				if code == 0 {
					if wantFail {
						kill()
						res.Excluded = "a command the model expects to fail succeeded (C20's business)"
						return
					}
					m = after
					allowed = []c12kModel{m}
					continue
				}
				// non-zero: a genuine refusal, or the proxy died under the command
				if isDead(500 * time.Millisecond) {
					inFlight = step
					if !wantFail {
						allowed = []c12kModel{m, after}
					}
					break
				}
				if !wantFail {
					kill()
					res.Excluded = "a command the model expects to succeed failed on a live proxy (inconclusive): " + strings.TrimSpace(se)
					return
				}
			}
		}
		switch {
		case !isDead(0):
			kill()
			killsIdle++
		case inFlight != "":
			killsInFlight++
		case started:
			killsIdle++ // the injection fired between commands (a log line, a timer)
		}

		sum, raw, absent, bad := c12kReadFile(statePath)
		if bad != "" {
			res.failf("state-file-not-a-complete-document", "%s: killed %s; the state file %s; content=%q", desc, map[bool]string{true: "during " + inFlight, false: "while idle"}[inFlight != ""], bad, raw)
			return
		}
		matched := -1
		for ai, a := range allowed {
			want := a.summary(tname)
			if absent && len(want) == 0 {
				matched = ai
			} else if !absent && fmt.Sprint(sum) == fmt.Sprint(want) {
				matched = ai
			}
		}
		if matched < 0 {
			var wants []string
			for _, a := range allowed {
				wants = append(wants, fmt.Sprint(a.summary(tname)))
			}
			what := "state-file-stale-or-partial"
			if absent || len(sum) == 0 {
				what = "state-file-empty"
			}
			res.failf(what, "%s: killed %s; the state file describes %v (absent=%v), allowed: %s", desc,
				map[bool]string{true: "during " + inFlight, false: "with no command in flight"}[inFlight != ""], sum, absent, strings.Join(wants, "  OR  "))
			return
		}
		m = allowed[matched]
		if inFlight != "" && len(allowed) == 2 {
			res.label(fmt.Sprintf("in-flight-kill-left-%s-snapshot", []string{"old", "new"}[matched]))
		}
	}
	res.NonTrivial = killsInFlight > 0
	if killsInFlight > 0 {
		res.label("killed-during-a-command")
	}
	if killsStartup > 0 {
		res.label("killed-during-startup-or-restore")
	}
	if killsIdle > 1 {
		res.label("killed-between-commands")
	}
	if len(p.Incs) > 1 {
		res.label("several-incarnations")
	}
	return res
}

func TestVF_C12_Kill(t *testing.T) {
	vfCheck(t, vfProp[c12kPlan]{id: "C12", gen: c12kGen, run: c12kRun})
}
