#!/usr/bin/env python3
"""Adds the 'history' note (was it caught at once, or what had to be strengthened) to the round-2 seeds' meta.json."""
import json, os
H = {
"C02-C": "missed at first by C02 (no TLS, no sub-path service; C16 caught it); C02 now also redeploys a sub-path service below a TLS root with requests over TLS",
"C02-D": "missed at first (no request offered an upgrade the target ignores); C02 and C03 now send such requests",
"C04-D": "missed at first (request paths were never percent-encoded); C04 now spells octets of the prefix encoded and routes the reference by the decoded path",
"C06-C": "missed at first (target lists never named an address twice); failing deploys now do",
"C06-D": "missed at first (commands never overlapped, slots were only observed through traffic); C06 now issues a succeeding command - often a rollout deploy of the same service - while the failing one waits, and compares the in-package view of every service's slots",
"C08-D": "missed at first (every service was mounted on the root path); C08 now also mounts services on /app with and without stripping",
"C10-C": "missed at first (decisions were only taken one at a time); C10 now has 8 goroutines deciding at once",
"C11-C": "missed by C11 (needs a crash image with a leftover temporary file, then a shrinking command); caught by C12 after its crash-image probe learnt to go on working from the image (remove a service, start again)",
"C11-D": "missed at first (`--max-pause 0` could not be generated: 0 meant 'default'); the command language now has an explicit zero max-pause",
"C13-D": "missed at first (one request at a time); new layer TestVF_C13_Concurrent fetches large, distinct bodies from one target concurrently",
"C15-C": "missed at first (never more than a few connections); C15 now opens 101/140 requests at once to a silent target in 5% of the cases",
"C15-D": "missed at first (no interim response before a fault); three new fault classes: 103 then reset / garbage / silence",
"C16-D": "missed at first (no paused or stopped services in C16, no TLS in C07/C08); C16 now stops/pauses/resumes services and asks for the health-check path",
"C18-D": "missed at first (a probe was never still busy when its target was disposed); new probe step 'status then stalled body', used by C18's flap operation; found as a deadlock by the lock-frame watchdog",
"C19-C": "missed at first (response headers were not compared for aborted responses); they are now",
"C19-D": "missed at first (no interim response); new ending: 103 then the final status",
"C20-D": "missed at first (ASCII names only); the binary layer now has a service whose non-ASCII name is the widest cell",
}
for sid, h in H.items():
    p = '/verif/seeded/%s/meta.json' % sid
    if os.path.exists(p):
        m = json.load(open(p)); m['history'] = h; json.dump(m, open(p, 'w'), indent=1)
for d in sorted(os.listdir('/verif/seeded')):
    p = '/verif/seeded/%s/meta.json' % d
    m = json.load(open(p))
    if 'history' not in m:
        m['history'] = "detected by the check as it was when the change arrived"
        json.dump(m, open(p, 'w'), indent=1)
