#!/bin/bash
# Evaluates round-3 seeded changes: ./seed3_eval.sh C03 C04 ...   (outputs of the sub-agents under /tmp/seed3/out/<ID>/{A,B})
cd "$(dirname "$0")"
mkdir -p /var/tmp/seed3-logs
for id in "$@"; do
  for v in A:E B:F; do
    src=${v%%:*}; suf=${v##*:}
    if [ -f /tmp/seed3/out/$id/$src/patch.diff ]; then
      ./seed_eval.py /tmp/seed3/out/$id/$src $id-$suf > /var/tmp/seed3-logs/$id-$suf.json 2>&1
      python3 - "$id-$suf" <<'P'
import json,sys
sid=sys.argv[1]
try:
    txt=open('/var/tmp/seed3-logs/%s.json'%sid).read()
    r=json.loads(txt[txt.index('{'):])
    print(sid, 'confirmed=%s'%r.get('confirmed'), {k:(v['detected'],v['exit'],v['wall_s']) for k,v in r.get('verdicts',{}).items()}, (r.get('why') or '')[:300])
except Exception as e:
    print(sid, 'ERROR', e)
P
    fi
  done
done
