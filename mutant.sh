#!/bin/bash
# usage: ./mutant.sh <patch-file> <ID>...   — applies a patch to /repo, runs the quick checks, reverts.
# Evidence and replays of mutant runs go to /var/tmp so the committed ones are never touched.
set -u
patch=$1; shift
cd /repo && git apply "$patch" || { echo "patch does not apply"; exit 2; }
export VERIF_EVIDENCE_DIR=/var/tmp/vf-mut-evidence VERIF_REPLAY_DIR=/var/tmp/vf-mut-replays
for id in "$@"; do
  (cd /verif && ./check "$id" --tier "${TIER:-quick}" 2>&1 | tail -4)
done
cd /repo && git checkout -- . && git status --short
rm -rf /var/tmp/vf-mut-evidence
