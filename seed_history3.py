#!/usr/bin/env python3
"""Adds the 'history' note to the round-3 seeds' meta.json (ids Cxx-E / Cxx-F)."""
import json, os
H = {
"C01-F": "missed at first (the harness called the router's methods directly, bypassing CommandHandler, where the two timeouts were swapped); every check now issues its commands through CommandHandler with the argument structs the CLI fills in",
"C02-E": "missed at first by C02 and C03 (the target timeout was always far longer than every request); both now draw a target timeout shorter than the drain timeout and keep event streams in flight across the drain",
"C03-E": "missed at first (every drained target was healthy); C03 now lets targets of the drained set fail their probes after the flights started, so they are out of rotation, still busy, when the command runs",
"C03-F": "missed at first (the command under test was always the first pause/stop of the process); C03 now issues earlier pause/stop/resume commands first",
"C04-E": "missed at first (no request with an empty path); the request matrix now has the absolute-form request line without a path, and the reference router lets the root prefix match it",
"C07-E": "missed at first (steps at one instant were still separated by a settle); new step 'flip' = resume and pause again back to back, after up to 12 extra held requests",
"C07-F": "detected by the check as it was when the change arrived (the first evaluation collided with an edit of the harness and ended in a build error; re-run)",
"C09-E": "missed at first (no restart in C09); C09 now restarts the proxy from its state file right after the deploy in a quarter of the cases - which also exposed the genuine defect F21 (fixed)",
"C10-F": "first evaluation did not compile (the C11 harness named the renamed field); the harness now compares the rollout controller as it would be saved; then detected by TestVF_C10_History's restart step",
"C12-E": "missed at first (an actor about to begin its snapshot was only let go while nobody held the snapshot lock); new plan flag Contend lets it queue on the lock while another writer sits inside its own snapshot",
"C15-E": "missed at first (checks fronted the proxy with an http.Server of their own, and target timeouts were at most 3 s); the front is now the real Server.startHTTPServers on the in-memory network (new verif hook verifListen) and C15 draws 30 s (the CLI default) and 120 s target timeouts; patch ported to HEAD (patch.original.diff is the sub-agent's)",
"C18-E": "missed at first (no deploy with two failing targets); new operations deploy-bad / rollout-deploy-bad (2-3 targets that give up together at the deploy timeout), and deploys now vary the target options - which also exposed the genuine data race F22 (fixed)",
}
for d in sorted(os.listdir('/verif/seeded')):
    if not (d.endswith('-E') or d.endswith('-F')):
        continue
    p = '/verif/seeded/%s/meta.json' % d
    m = json.load(open(p))
    m['history'] = H.get(d, "detected by the check as it was when the change arrived")
    m['round'] = 3
    json.dump(m, open(p, 'w'), indent=1)
