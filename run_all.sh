#!/bin/bash
# Regenerates every evidence file on the current tree: ./run_all.sh [quick|thorough] [IDs...]
tier=${1:-quick}; shift
ids=${@:-$(python3 -c "import sys; sys.path.insert(0,'/verif'); from checks_config import CHECKS; print(' '.join(sorted(CHECKS)))")}
rc=0
for id in $ids; do
  ./check $id --tier $tier 2>&1 | tail -3 || rc=1
done
exit $rc
