#!/bin/bash
# Regenerates every evidence file on the current tree: ./run_all.sh [quick|thorough] [IDs...]
# Prints, per check, the lines that matter (verdict, violations, inconclusive shards, known findings) and its exit status.
tier=${1:-quick}; shift
ids=${@:-$(python3 -c "import sys; sys.path.insert(0,'/verif'); from checks_config import CHECKS; print(' '.join(sorted(CHECKS)))")}
rc=0
for id in $ids; do
  ./check $id --tier $tier > /tmp/run_all.$$.out 2>&1; r=$?
  grep -E "^(VIOLATION|KNOWN-FINDING|violation found|inconclusive|deadlock|race report|note:|BUILD-FAILED|C[0-9]+ (quick|thorough):)" /tmp/run_all.$$.out | cut -c1-400
  echo "$id exit=$r"
  [ $r -ne 0 ] && rc=1
done
rm -f /tmp/run_all.$$.out
exit $rc
