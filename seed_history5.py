#!/usr/bin/env python3
"""Adds the 'history' note to the round-5 seeds' meta.json (ids Cxx-I / Cxx-J)."""
import json, os
H = {
"C01-J": "missed at first (the shortest deploy timeout on the grid was longer than every health-check interval); 50 ms is now on the grid, below the shortest interval",
"C02-I": "not visible to C02 (the change touches only what is written to the state file after rollout stop; no request fails during a redeploy of a running proxy); C12, whose property it breaks, catches it - evaluated against both",
"C08-J": "missed at first (health paths never needed percent-encoding); the grid now holds a health path with a space and a non-ASCII rune, probed in its encoded wire form",
"C09-I": "missed at first (no history set a split again after stopping one); C09 now draws rollout deploy / set / stop / set cycles and C17_Overlap's ownership oracle sees the unprobed rollout targets too",
"C12-J": "missed at first (stop messages were plain words); the message pool now holds ESC, BEL, DEL, VT and astral-plane runes, whose Go quoting differs from JSON's",
"C13-I": "missed at first (limits were only ever set by a service's first deploy); in a third of the cases a prior deploy with other limits and a rollout in place comes first",
"C14-I": "missed at first (same shape as C13-I: options of a redeploy); prior deploy with other buffering options, then optionally a restart or rollout deploy, after which the recorded options must still be those of the last deploy (C11 sees it too)",
"C15-I": "missed at first (error pages were never served after a restore); in a quarter of the cases the router is now restarted from its state file before the requests",
"C17-I": "missed at first (no overlap case ended in remove with rollout targets and no split); the exhaustive overlap enumeration now has remove as a last command - which also surfaced two more shapes of finding F23",
"C19-I": "missed at first (headers were never logged after a restore); in a quarter of the cases the router is restarted from its state file before the requests",
"C20-I": "missed at first by C20 (C12 caught it: removing the last service is not saved); the binary layer now kills and restarts the proxy between commands, and list must still print exactly the model",
"C20-J": "missed at first (limits given on the command line were never zero); the decision table now has --max-request-body 0 and --max-response-body 0 given explicitly",
}
for d in sorted(os.listdir('/verif/seeded')):
    if not (d.endswith('-I') or d.endswith('-J')):
        continue
    p = '/verif/seeded/%s/meta.json' % d
    m = json.load(open(p))
    m['history'] = H.get(d, "detected by the check as it was when the change arrived")
    m['round'] = 5
    json.dump(m, open(p, 'w'), indent=1)
