#!/bin/bash
# Re-evaluates every seeded change kept under seeded/ with the current checks, JOBS at a time (default 4).
#   ./seed_all.sh [ids...]     results: /var/tmp/vf-seedsrc/<id>.json, one summary line per seed on stdout
cd "$(dirname "$0")"
JOBS=${JOBS:-4}
extra_for() { case $1 in C02-A) echo "--checks C02,C03,C17";; C03-B) echo "--checks C03,C17";; C06-A|C06-B|C17-A) echo "--checks C06,C17";; C02-C) echo "--checks C02,C16";; C02-D|C02-E) echo "--checks C02,C03";; C04-G) echo "--checks C04,C05";; C11-G) echo "--checks C11,C12";; C11-C) echo "--checks C11,C12";; C02-I) echo "--checks C02,C12";; C09-I) echo "--checks C09,C17";; C14-I) echo "--checks C14,C11";; esac; }
one() {
  sid=$1; d=seeded/$sid
  src=/var/tmp/vf-seedsrc/$sid; rm -rf $src; mkdir -p $src
  cp $d/patch.diff $d/meta.json $src/
  for f in $d/*_test.go.txt; do [ -f "$f" ] && cp "$f" $src/$(basename ${f%.txt}); done
  [ -d $d/demo ] && cp -r $d/demo $src/demo
  python3 - $src/meta.json $d/meta.json "$sid" <<'PY'
import json,sys
m=json.load(open(sys.argv[1])); keep={k:m.get(k) for k in ('history','round','status','superseded_by') if k in m}
json.dump(keep,open('/var/tmp/vf-seedsrc/%s.keep'%sys.argv[3],'w'))
m.pop('verdicts',None); m.pop('ran',None); json.dump(m,open(sys.argv[1],'w'))
PY
  if grep -q '"status": "superseded"' $d/meta.json; then echo "$sid superseded (kept for the record, not re-evaluated)"; return; fi
  timeout 3000 ./seed_eval.py $src $sid $(extra_for $sid) > /var/tmp/vf-seedsrc/$sid.json 2>/var/tmp/vf-seedsrc/$sid.err
  python3 - "$sid" <<'PY'
import json,sys
sid=sys.argv[1]
try:
    t=open('/var/tmp/vf-seedsrc/%s.json'%sid).read(); r=json.loads(t[t.index('{'):])
except Exception as e:
    print(sid,'ERROR',e); sys.exit(0)
print(sid,'confirmed=',r.get('confirmed'),{k:(v['detected'],v['exit'],v['wall_s']) for k,v in r.get('verdicts',{}).items()}, (r.get('why') or '')[:200])
keep=json.load(open('/var/tmp/vf-seedsrc/%s.keep'%sid))
p='/verif/seeded/%s/meta.json'%sid
try:
    m=json.load(open(p)); m.update(keep); json.dump(m,open(p,'w'),indent=1)
except Exception as e: print('meta',e)
PY
}
export -f one extra_for
ids=${@:-$(ls seeded)}
printf "%s\n" $ids | xargs -P $JOBS -I{} bash -c 'one {}'
