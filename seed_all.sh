#!/bin/bash
# Re-evaluates every seeded change under /tmp/seed/out (or the directory given) with the current checks.
src=${1:-/tmp/seed/out}
for id in $(ls $src); do for x in A B; do
  [ -f $src/$id/$x/patch.diff ] || continue
  extra=""
  case $id-$x in C02-A) extra="--checks C02,C03,C17";; C02-B) extra="--checks C02";; C03-B) extra="--checks C03,C17";; C06-A|C06-B|C17-A) extra="--checks C06,C17";; esac
  timeout 3000 ./seed_eval.py $src/$id/$x $id-$x $extra > /tmp/seed/eval_$id$x.json 2>/tmp/seed/eval_$id$x.err
  python3 -c "
import json; r=json.load(open('/tmp/seed/eval_$id$x.json')); print('$id-$x', 'confirmed=',r.get('confirmed'), {k:(v['detected'],v['exit'],v['wall_s']) for k,v in r['verdicts'].items()})"
done; done
