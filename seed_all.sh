#!/bin/bash
# Re-evaluates every seeded change kept under seeded/ with the current checks (round 1: A/B, round 2: C/D).
#   ./seed_all.sh [/tmp/seed/out /tmp/seed2/out]   (sources default to seeded/<id>/ itself)
extra_for() { case $1 in C02-A) echo "--checks C02,C03,C17";; C03-B) echo "--checks C03,C17";; C06-A|C06-B|C17-A) echo "--checks C06,C17";; C02-C) echo "--checks C02,C16";; C02-D) echo "--checks C02,C03";; C11-C) echo "--checks C11,C12";; esac; }
for d in $(ls -d seeded/*/); do
  sid=$(basename $d)
  src=/var/tmp/vf-seedsrc/$sid; rm -rf $src; mkdir -p $src
  cp $d/patch.diff $d/meta.json $src/
  for f in $d/*_test.go.txt; do [ -f "$f" ] && cp "$f" $src/$(basename ${f%.txt}); done
  [ -d $d/demo ] && cp -r $d/demo $src/demo
  python3 - $src/meta.json <<'PY'
import json,sys
m=json.load(open(sys.argv[1])); m.pop('verdicts',None); m.pop('ran',None); json.dump(m,open(sys.argv[1],'w'))
PY
  hist=$(python3 -c "import json;print(json.load(open('$d/meta.json')).get('history',''))")
  timeout 3000 ./seed_eval.py $src $sid $(extra_for $sid) > /var/tmp/vf-seedsrc/$sid.json 2>/var/tmp/vf-seedsrc/$sid.err
  python3 - "$sid" "$hist" <<'PY'
import json,sys
sid,hist=sys.argv[1],sys.argv[2]
r=json.load(open('/var/tmp/vf-seedsrc/%s.json'%sid))
print(sid,'confirmed=',r.get('confirmed'),{k:(v['detected'],v['exit'],v['wall_s']) for k,v in r['verdicts'].items()}, (r.get('why') or '')[:160])
p='/verif/seeded/%s/meta.json'%sid
try:
    m=json.load(open(p))
    if hist and 'history' not in m: m['history']=hist; json.dump(m,open(p,'w'),indent=1)
except Exception as e: print('meta',e)
PY
done
