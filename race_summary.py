#!/usr/bin/env python3
"""Summarises Go race-detector reports by the pair of innermost kamal-proxy frames (stdin or file)."""
import re, sys
def signatures(txt):
    out = {}
    for b in txt.split('WARNING: DATA RACE')[1:]:
        b = b.split('==================')[0]
        parts = re.split(r'\n\n', b)
        fr = []
        for part in parts[:2]:
            m = re.findall(r'\n  (\S+)\(\)\n\s+(\S+?):(\d+)', part)
            f = [x for x in m if '/internal/' in x[1] and 'zz_vf' not in x[1] and '/go1.' not in x[1] and '/pkg/mod/' not in x[1]]
            h = [x for x in m if 'zz_vf' in x[1]]
            if f:
                fr.append(f[0][0].split('/')[-1].replace('server.', ''))
            elif h:
                fr.append('HARNESS:' + h[0][0].split('/')[-1].replace('server.', ''))
            else:
                fr.append('?')
        sig = 'race:' + '|'.join(sorted(fr))
        out.setdefault(sig, []).append(b)
    return out
if __name__ == '__main__':
    txt = open(sys.argv[1]).read() if len(sys.argv) > 1 else sys.stdin.read()
    s = signatures(txt)
    for k, v in sorted(s.items(), key=lambda x: -len(x[1])):
        print(len(v), k)
