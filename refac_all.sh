#!/bin/bash
# Evaluates the behaviour-preserving changes under <out-dir>/<ID>/{A,B}: ./refac_all.sh <out-dir> [extra checks, comma separated]
cd "$(dirname "$0")"
out=$1; extra=$2
one() { id=$1; v=$2; out=$3; extra=$4; checks=$id; [ -n "$extra" ] && checks="$id,$extra"; ./refac_eval.py $out/$id/$v $id-R$v --checks $checks 2>&1 | tail -1 | cut -c1-400; }
export -f one
for id in $(ls $out); do for v in A B; do [ -f $out/$id/$v/patch.diff ] && echo "$id $v"; done; done | xargs -P ${JOBS:-3} -L1 bash -c 'one $0 $1 '"$out"' '"$extra"
