#!/usr/bin/env python3
"""Adds the 'history' note to the round-4 seeds' meta.json (ids Cxx-G / Cxx-H)."""
import json, os
H = {
"C04-G": "missed at first by C04 (C05 caught it: two owners of one pair); new detour in C04: an intruder claiming the same bindings is still waiting for its slow target when the rightful service is deployed - its deploy must come to nothing, else routing depends on the order of commands",
"C04-H": "missed at first (no redeploy that keeps the hosts and changes only the prefixes); new detour: the service is first deployed on the same hosts below another prefix",
"C06-H": "missed at first (no fault while saving the state); new layer TestVF_C06_SaveFault makes the state file's place unusable before one more command: what the command reports must be true",
"C09-H": "missed at first (probe answers of one virtual instant reached the proxy microseconds apart, and two targets rarely changed together); the harness's probe transport now hands answers of one instant over together (spin rendezvous), and the new layer TestVF_C09_Simultaneous flips drawn subsets of 4-8 targets every probe round (3 of 3 quick runs catch it on a loaded machine)",
"C11-G": "missed at first by C11 (histories were strictly sequential; C12 caught it); in a quarter of the cases the last command of the history now overtakes the snapshot of the one before it, when the code lets it",
"C14-H": "missed at first (the integration layer's target always answered 200 and never sent an interim response); it now draws the final status and an interim 100 / 102 / 103",
"C15-H": "missed at first (the service always sat on the root path); in a third of the cases it is now mounted below /app with prefix stripping",
"C17-G": "missed at first (drain timeouts were never zero); 0 is now on the grid of C03 / C17_Drain",
"C18-H": "missed at first (the window of the lock-order inversion is far below what the stress layers hit); new layer TestVF_C18_ProbeVsCommand holds a health-changing probe result at the hook target.health-changed while commands that dispose or drain the target run",
"C19-H": "missed at first (every service sat on the root path); in a third of the cases all non-TLS services are mounted below /app with prefix stripping",
}
for d in sorted(os.listdir('/verif/seeded')):
    if not (d.endswith('-G') or d.endswith('-H')):
        continue
    p = '/verif/seeded/%s/meta.json' % d
    m = json.load(open(p))
    m['history'] = H.get(d, "detected by the check as it was when the change arrived")
    m['round'] = 4
    json.dump(m, open(p, 'w'), indent=1)
