#!/usr/bin/env python3
"""Regenerates MANIFEST.json from checks_config.py (kept in sync so the manifest is always valid)."""
import json, os, subprocess, sys
sys.path.insert(0, os.path.dirname(os.path.abspath(__file__)))
from checks_config import CHECKS, NOT_APPLICABLE

props = [json.loads(l) for l in open(os.path.join(os.path.dirname(__file__), "properties.jsonl"))]
hook_commits = subprocess.run(["git", "-C", "/repo", "log", "--format=%H", "--grep=^verif:"], capture_output=True, text=True).stdout.split()
checks = []
for p in props:
    pid = p["id"]
    if pid not in CHECKS:
        continue
    c = CHECKS[pid]
    checks.append({
        "property_id": pid,
        "quick_cmd": "./check %s --tier quick" % pid,
        "thorough_cmd": "./check %s --tier thorough" % pid,
        "evidence_file": "evidence/%s.json" % pid,
        "replay_cmd_template": "./check %s --replay {path}" % pid,
        "engine": c.get("engine", "harness/server"),
        "level_claimed": {"category": c["level"], "text": c["level_text"], "design_ref": c.get("design_ref", "DESIGN.md section 4, " + pid)},
        "level_note": c["level_note"],
        "technique": c["technique"],
    })
m = {
    "version": 1,
    "setup_cmd": "./check --setup",
    "hooks": {
        "guard": "verif",
        "enable": "go test -c -tags verif (build tag); harness test files are injected with -overlay, /repo is never written",
        "baseline_off_cmd": "cd /repo && go test -mod=mod -json -vet=off -count=1 -timeout 25m ./...",
        "source_commits": hook_commits,
        "add_only": False,
    },
    "engines": [
        {"name": "harness/server", "path": "harness/server", "serves_properties": sorted(k for k, v in CHECKS.items() if v.get("engine", "harness/server") == "harness/server"),
         "kind_free_text": "rapid (pgregory.net/rapid v1.3.0) property tests compiled into package internal/server by overlay; every case runs in a testing/synctest bubble (virtual clock) over an in-memory network against scripted fake targets; oracles are reference models / metamorphic relations; shrunk failing plans are replayed without rapid"},
        {"name": "harness/cmd", "path": "harness/cmd", "serves_properties": sorted(k for k, v in CHECKS.items() if v.get("engine") == "harness/cmd"),
         "kind_free_text": "rapid / exhaustive decision tables compiled into package internal/cmd by overlay, plus the built binary driven as subprocesses"},
    ],
    "checks": checks,
    "not_applicable": [{"property_id": k, "reason": v} for k, v in sorted(NOT_APPLICABLE.items())],
    "notes": "All checks: ./check <ID> --tier quick|thorough; exit 0 held / 1 VIOLATION line / 2 inconclusive. VERIF_SEED selects the rapid seed. KNOWN_FINDINGS.txt lists genuine defects recorded rather than repaired.",
}
json.dump(m, open(os.path.join(os.path.dirname(__file__), "MANIFEST.json"), "w"), indent=1)
print("MANIFEST.json: %d checks, %d not_applicable" % (len(checks), len(m["not_applicable"])))
try:
    import jsonschema
    jsonschema.validate(m, json.load(open("/root/.vp/MANIFEST.schema.json")))
    print("schema ok")
except ImportError:
    pass
