#!/bin/bash
# Soundness sweep on the unchanged tree: every quick check at several seeds, three at a time (busy machine).
# Evidence and replays go to /var/tmp; anything but exit 0 is reported.
out=/var/tmp/vf-multiseed; mkdir -p $out
seeds=${@:-2 3 4 5 6 7}
ids=$(python3 -c "import sys; sys.path.insert(0,'/verif'); from checks_config import CHECKS; print(' '.join(sorted(CHECKS)))")
run() { seed=$1; for id in $ids; do
  VERIF_SEED=$seed VERIF_EVIDENCE_DIR=$out/ev$seed VERIF_REPLAY_DIR=$out/rep$seed ./check $id --tier quick > $out/$id.$seed.log 2>&1; rc=$?
  [ $rc -ne 0 ] && echo "seed=$seed $id exit=$rc $(grep -m1 -i 'violation found\|inconclusive\|race report' $out/$id.$seed.log | cut -c1-300)"
done; echo "seed $seed done"; }
n=0
for s in $seeds; do run $s & n=$((n+1)); if [ $((n%3)) -eq 0 ]; then wait; fi; done; wait
