#!/usr/bin/env python3
"""Regenerates the table of section 9 of DESIGN.md from seeded/*/meta.json (between the table header and the next blank line)."""
import json, os, re
rows = []
for d in sorted(os.listdir('/verif/seeded')):
    m = json.load(open('/verif/seeded/%s/meta.json' % d))
    def cell(x, n):
        x = re.sub(r'\s+', ' ', str(x or '')).replace('|', '/')
        return x[:n]
    if m.get('status') == 'superseded':
        caught = 'superseded: ' + cell(m.get('superseded_by', ''), 80)
    else:
        v = m.get('verdicts', {})
        caught = ', '.join(k for k, x in v.items() if x.get('detected')) or 'NOT CAUGHT'
    rows.append('| %s | %s | %s | %s | %s |' % (d, cell(m.get('summary'), 230), cell(m.get('needs'), 200), caught, cell(m.get('history'), 400)))
s = open('/verif/DESIGN.md').read()
head = '| id | change | needs | caught by (quick) | history |\n|---|---|---|---|---|\n'
i = s.index(head) + len(head)
j = s.index('\n\n', i)
s = s[:i] + '\n'.join(rows) + s[j:]
open('/verif/DESIGN.md', 'w').write(s)
print(len(rows), 'rows;', sum('NOT CAUGHT' in r for r in rows), 'not caught;', sum('superseded' in r for r in rows), 'superseded')
