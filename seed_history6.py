#!/usr/bin/env python3
"""Adds the 'history' note to the round-6 seeds' meta.json (ids Cxx-K / Cxx-L)."""
import json, os
H = {
"C03-L": "missed at first (upgrades were always complete before the command began); new flight kind: the handshake is in flight when draining begins and the target's 101 arrives half-way through the drain - the tunnel must be closed by the time the command returns",
"C09-K": "missed at first (nothing but the deploy under test was ever issued before the probing was watched); in a third of the cases a second service is in place and one more command on the first is refused (host conflict, dead target, dead rollout target) before the events - all targets in place, the rollout target included, keep their cadence",
"C10-L": "missed at first by C10 (C07 caught the same change as C07-K: a held request must follow the configuration in force at its release); C10_History now pauses the service around a quarter of its rollout commands with one request per cookie value held, and judges them by the split in force after the command",
"C11-L": "missed at first by C11 (C12 caught the same change as C12-L); when the last-but-one command of the history holds the snapshot lock, the last one is now issued meanwhile from a second goroutine and queues behind it - it must not go without its own snapshot",
"C12-K": "missed at first (restarts were assumed to read only; the kill layer's start-up kills were too rare and too early); the in-process layer now watches every snapshot step a start from a crash image performs and requires the image to describe a configuration in force at each of them; the kill layer counts further into the start-up",
"C13-L": "missed at first (the target timeout was never shorter than a response); a fifth of the cases have a 50 ms target timeout and a body whose second half follows 10-400 ms after the first - delivered whole, the timeout bounds the wait for headers",
"C15-L": "missed at first (faults never happened while the target was being drained); new faults held-then-close / -reset / -garbage (the target fails 200 ms after it had the request) and, in a third of the cases, a pause or stop that begins to drain the target meanwhile: still 502, and the command returns when the failed request ends",
"C17-L": "missed at first, as an inconclusive run (requests queued on the lock the draining command held stall a synctest bubble: the time limit fired, not an oracle); `list` is now issued while the command drains and must answer without time passing (bounded real-time wait), and a case that has come to a standstill with a proxy goroutine queued on a proxy lock is reported as a violation after 40 s (structural stall detection, section 0.2)",
"C18-K": "missed at first (150 quick cases rarely evicted one of two targets and then sent an odd number of requests); new operation `evict`: a pool target fails three probes, and 1-3 requests per service meet the shrunken and then the regrown rotation",
"C20-K": "missed at first (a TLS root service and a sub-path service on its host were listed together in about one binary case in fifty); a third of the binary cases now begin with exactly that pair, in either order, and `list`",
"C20-L": "missed at first (no client traffic in the binary layer); a sixth of the binary cases now redeploy a service while a 3 s request is in flight on the target being replaced (--deploy-timeout 400ms --drain-timeout 10s): exit status 0, request completed",
}
for d in sorted(os.listdir('/verif/seeded')):
    if not (d.endswith('-K') or d.endswith('-L')):
        continue
    p = '/verif/seeded/%s/meta.json' % d
    m = json.load(open(p))
    m['history'] = H.get(d, "detected by the check as it was when the change arrived")
    if d == 'C18-L':
        m['history'] = "detected by the check as it was when the change arrived, though only at the shard's 10-minute limit (the driver reads the goroutine dump of a timed-out C18 shard and reports goroutines queued on proxy locks as a deadlock)"
    m['round'] = 6
    json.dump(m, open(p, 'w'), indent=1)
