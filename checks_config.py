"""Per-property configuration of the driver: layers (test functions), budgets, evidence text."""


def L(test, quick, thorough, shards=16, qenv=None, tenv=None, qtimeout=None, ttimeout=None, qshards=1, **kw):
    d = {"test": test, "quick": {"checks": quick, "shards": qshards, "env": qenv or {}},
         "thorough": {"checks": thorough, "shards": shards, "env": tenv or {}}}
    if qtimeout:
        d["quick"]["timeout"] = qtimeout
    if ttimeout:
        d["thorough"]["timeout"] = ttimeout
    d.update(kw)
    return d


CHECKS = {
    "C04": {
        "level": "exploration",
        "rule": "generated service tables (1-6 services over a colliding alphabet of host labels and path segments, wildcards, "
                "default host) deployed through the real DeployService in two orders (+detours, +restart) and a generated request "
                "matrix; oracle: reference router written from the statement. Non-trivial = the table has two services sharing a "
                "host level AND the matrix contains a boundary request (look-alike prefix, wildcard-vs-exact, exact level with no "
                "matching path, Host with port). Distinct by hash of the generated plan.",
        "layers": [L("TestVF_C04", 1500, 20000)],
        "technique": "property-based testing (rapid): generated routing tables and request matrices, differential against a reference router, metamorphic over command order / detours / restart",
        "level_text": "Bounded random exploration with shrinking: thousands of generated tables deployed through the real command path in several orders and compared request by request with an independent reference router. Finds any routing-rule deviation reachable with <=6 services over the colliding alphabet; does not establish absence.",
        "level_note": "Trusts the in-memory network and fake targets of the harness, go1.26.8's net/http, and the reference router (30 lines, written from the statement).",
        "assumptions": ["hosts are lower-case (the code does not case-fold and the statement does not say it does)",
                        "request paths start with '/'"],
    },
}

CHECKS["C05"] = {
    "level": "exploration",
    "rule": "generated histories of 3-14 deploy / redeploy-with-other-bindings / remove commands over 4 service names and overlapping "
            "host and prefix pools (default host, wildcards), optionally followed by 2-5 concurrent deploys of new services claiming "
            "the same pairs; after every step the command result class, `list` and a 9x10 routing matrix are compared with the "
            "reference model's ownership map. Non-trivial = history with >=1 rejected claim and >=1 pair that changed owner. "
            "Distinct by plan hash.",
    "layers": [L("TestVF_C05", 600, 8000)],
    "technique": "stateful property-based testing (rapid): generated command histories against a reference ownership model; concurrent racing step",
    "level_text": "Bounded random exploration of command histories with a model oracle after every step; the racing step is uncontrolled concurrency (real goroutines), so a check-then-install split is found by stress, not by construction.",
    "level_note": "Trusts the harness world and the reference model; the race step depends on the Go scheduler.",
}

CHECKS["C06"] = {
    "level": "exploration",
    "rule": "a reachable configuration (1-10 model-valid commands: deploys with drawn options incl. TLS/error pages/buffering, "
            "rollout deploy/set/stop, pause, stop, resume, remove) followed by one failing command of a drawn class (malformed "
            "target, dead target, unreadable certificate, bad/missing error pages, automatic TLS + wildcard, host conflict, unknown "
            "service for 7 commands, rollout split without targets, rollout deploy of dead/malformed targets); oracle: every "
            "observable (list, 9x10x2 request matrix incl. stop pages and redirects, rollout side of 5 cookies, parsed + normalised "
            "state file) is identical before/after, and no probe reaches a target named only by the failed command in the 5 probe "
            "intervals after it returned. Non-trivial = failing command issued with >=2 services deployed. Distinct by plan hash.",
    "layers": [L("TestVF_C06", 400, 5000)],
    "technique": "stateful property-based testing (rapid): generated configuration + generated failing command, before/after observational equality and probe-log invariant",
    "level_text": "Bounded random exploration over configurations x error classes with an equality oracle on everything observable; late failures (after probing) are reached through the virtual clock.",
    "level_note": "Trusts the harness world; observables are those listed in the rule (internal state that never becomes observable is not compared).",
}

CHECKS["C01"] = {
    "level": "exploration",
    "rule": "deploy of a new service / redeploy / rollout deploy with 1-4 new targets, each with a generated probe script "
            "(refused, 300/304/400/404/500/503, answers at probe-timeout -1/=/+1 ms, stall, 200/201/204/299, success after k failures, "
            "never healthy), interval/probe-timeout/deploy-timeout from a grid so that healthy just before / at / after the deadline "
            "are frequent, 0-6 client requests at drawn virtual instants while the command runs plus 3 intervals of follow-up "
            "requests; oracle from the fake targets' own logs (T_ok = first 2xx answer sent). Non-trivial = >=1 target with a "
            "failing attempt AND >=1 client request that arrived while the command was running. Distinct by plan hash.",
    "layers": [L("TestVF_C01", 1500, 20000)],
    "technique": "property-based testing (rapid) on a virtual clock: generated probe-outcome scripts and request instants, invariant over the targets' observed logs",
    "level_text": "Bounded random exploration with exact virtual time: every timeout relation (before / at / after) is generated on purpose and compared exactly; ties are accepted either way.",
    "level_note": "Trusts synctest's fake clock, the in-memory network and the fake targets' logs; quiescent observation only (the probe-goroutine window is C02's).",
}
CHECKS["C17"] = {
    "level": "exploration",
    "rule": "C01's scenarios with request service times and exact return-instant oracles for deploy / rollout deploy "
            "(success: instant the last target became healthy + drain of the replaced set; failure: exactly deploy-timeout), "
            "and no probe after the command at retired or rejected targets. Non-trivial = a command that returned strictly before "
            "its bound for a computed reason, or hit the bound exactly. Distinct by plan hash.",
    "layers": [L("TestVF_C17_Deploy", 1500, 20000)],
    "technique": "property-based testing (rapid) on a virtual clock: exact return-time oracle, probe-log invariant",
    "level_text": "Bounded random exploration; the virtual clock makes 'returns as soon as its condition is met' an exact equality instead of a sleep-based guess.",
    "level_note": "Trusts synctest's fake clock and the harness world.",
}

CHECKS["C09"] = {
    "level": "exploration",
    "rule": "1-5 targets deployed healthy, then per-target generated probe scripts (refused, 302/404/500, answers around the probe "
            "timeout and beyond the interval, stall, ok; flapping, all failing, staggered recovery), 2-12 request events at drawn "
            "virtual instants between probes, each a run of sequential requests and optionally a concurrent batch of 2-12; oracle: "
            "healthy set H recomputed from the targets' own probe logs at each (quiescent) instant, membership of every receipt in H, "
            "503 when H is empty, floor/ceil fairness over every window of every stretch with H unchanged (batches atomic), probe "
            "cadence and liveness. Non-trivial = H changed at least twice and a window of >=2k receipts was observed. Distinct by plan hash.",
    "layers": [L("TestVF_C09", 1200, 15000)],
    "technique": "property-based testing (rapid) on a virtual clock: generated probe scripts and request bursts; oracle recomputed from observed probe logs; window fairness invariant",
    "level_text": "Bounded random exploration with exact virtual time; observation at quiescent instants only, ties skipped and counted.",
    "level_note": "Trusts synctest's fake clock and the fake targets' logs.",
}

CHECKS["C10"] = {
    "level": "exploration",
    "rule": "TestVF_C10: 1-10 generated cookie values (cookie-octet alphabet, 1-64 bytes, near-duplicates, one-bit neighbours) observed "
            "through the real router at EVERY percentage 0..100 (exhaustive range), allowlists of 0-3 values at 5 percentages, "
            "composite Cookie headers (several pairs, look-alike names, duplicates) and raw malformed headers; metamorphic oracles "
            "(sticky, monotone, 100% includes all, allowlist, opt-in only, no split / before targets / after stop => active), no hash "
            "re-implementation. TestVF_C10_History: generated histories of rollout deploy/set/stop/redeploy/restart with the side of a "
            "fixed cookie set compared with a table measured on a pristine service. TestVF_C10_Share: 4000 seed-derived distinct "
            "values per drawn percentage, included share within 6 sigma (binomial) of p/100. Non-trivial = a value that changes "
            "side across percentages / a history with a restart or redeploy between observations / 0<p<100. Distinct by plan hash.",
    "layers": [L("TestVF_C10", 150, 2000), L("TestVF_C10_History", 400, 5000), L("TestVF_C10_Share", 300, 3000)],
    "technique": "property-based testing (rapid): metamorphic relations over generated cookie values x all 101 percentages; stateful histories against a measured side table; statistical share test",
    "level_text": "Bounded random exploration over values and histories; the percentage range is enumerated completely for every generated value.",
    "level_note": "Share tolerance 6 sigma + 1/n (stated in the failure message); trusts the harness world.",
}

CHECKS["C08"] = {
    "level": "exploration",
    "rule": "1-2 services (no / custom-with-503 / custom-without-503 error pages, default or custom health path) and 2-14 generated "
            "commands from {stop(msg), pause, resume, deploy (optionally changing the page directory), rollout deploy/set/stop}; after "
            "every step 8 requests per service (GET/POST/HEAD on plain paths and on the health path with look-alikes) through the full "
            "middleware chain; messages from a hostile pool (markup, template syntax, entities, NUL, multi-byte, 4 kB) and random rune "
            "strings; oracle: state machine from the reference model, page identity by marker, message round-trip "
            "(HTML-unescape(region) == message, no raw < > or bare &), targets' request logs silent while not running. "
            "Non-trivial = a message containing a character that must be escaped, or >=3 state changes. Distinct by plan hash.",
    "layers": [L("TestVF_C08", 800, 10000)],
    "technique": "stateful property-based testing (rapid): generated command histories and messages; model state machine + HTML round-trip oracle",
    "level_text": "Bounded random exploration of histories x messages with a round-trip oracle that does not re-implement the escaper.",
    "level_note": "Trusts the harness world; requests enter through Server.buildHandler() by direct call.",
}

CHECKS["C11"] = {
    "level": "exploration",
    "rule": "history H1 (1-12 model-valid commands over up to 4 multi-host / multi-path / multi-target services with drawn options: "
            "strip, TLS static/automatic, redirect, error pages, health path/interval/timeout, target timeout, buffering + limits, "
            "forward headers, log headers; rollout deploy/set/stop, pause, stop, resume, remove), restart (router B restored from a "
            "copy of A's state file), continuation H2 (0-8 commands, a quarter of them failing ones) issued to both; oracle: A and B "
            "agree on command result class and duration, list, 9x10x2 request matrix (slots, stop pages, redirect targets), rollout "
            "side of 5 cookies, parsed state file, in-package view of options / target options / pause / split, a behaviour suite "
            "(URI after stripping, forwarded headers, 413/500 at 7 body sizes, 504 at 8 target delays with exact durations) and the "
            "outcome and instant of requests held across the continuation. Non-trivial = restart with >=1 non-default option and >=1 "
            "of {paused, stopped, rollout, multi-target}. Distinct by plan hash.",
    "layers": [L("TestVF_C11", 200, 3000)],
    "technique": "property-based testing (rapid): differential between the original router and one restored from its state file, over generated histories and continuations",
    "level_text": "Bounded random exploration with a differential oracle over every observable the harness can reach; licences: rotation position, health presumed until first probe.",
    "level_note": "All pool targets are healthy, so the 'presumed healthy' licence is never exercised here (C09 covers health); both routers probe the same fake targets.",
}

CHECKS["C16"] = {
    "level": "exploration",
    "rule": "2-9 generated commands building tables of root and sub-path services over hosts {a.test, b.test, *.test, ::1, x.a.test} "
            "with TLS off / static certificate / automatic, redirect on/off, in generated orders with redeploys that flip TLS, removal "
            "of root services and an optional restart; after every command 3-14 requests (scheme x Host with port / IPv4 / bracketed "
            "IPv6 x request-target bytes with queries, encoded octets, double slashes) parsed by net/http's own request reader, and 9 "
            "SNI names (bound, unbound, sub-domain, wildcard-covered, empty); oracle: effective policy from the reference model (sub-path "
            "follows the root service of its host), exact Location string, 503 for TLS on non-TLS, certificate <=> name bound to a "
            "TLS-enabled root service (automatic managers are asked for their host policy only, never for a certificate). "
            "Non-trivial = a sub-path service whose effective policy differs from its own flags, or a Host with a port. Distinct by plan hash.",
    "layers": [L("TestVF_C16", 600, 8000)],
    "technique": "stateful property-based testing (rapid): generated TLS tables, orders and requests against the reference model's effective-policy function",
    "level_text": "Bounded random exploration; sub-path services whose hosts disagree about the root service's settings are outside the statement's domain and are counted as excluded.",
    "level_note": "No TLS handshake is performed: GetCertificate is called directly with generated ClientHelloInfo; ACME is never contacted.",
}

CHECKS["C13"] = {
    "level": "exploration",
    "rule": "structured raw HTTP/1.1 requests (9 method tokens incl. custom ones; paths under the service prefix with percent-encoded "
            "octets in both hex cases, %2F, %25, multi-byte, repeated/trailing slashes, the prefix as a later segment, the prefix itself; "
            "15 raw queries incl. ';', stray %, '&&', bare '?'; 0-12 headers from a pool with multi-values, odd legal names, OWS, "
            "client X-Forwarded-*/Forwarded/X-Request-ID/X-Request-Start and hop-by-hop headers; bodies 0-70 kB with Content-Length "
            "or generated chunking) sent over the in-memory network through Server.buildHandler() to a raw target that records the "
            "bytes it receives and answers with a generated response (21 statuses, 0-8 headers with multi-values, body 0-70 kB framed "
            "by Content-Length / chunked / connection close); config: prefix stripping on/off with root and non-root prefixes, header "
            "forwarding on/off, http/https client side, request/response buffering. Oracle: field-by-field and byte-by-byte equality "
            "with the stated licences (hop-by-hop removal, Forwarded removal, framing headers, sniffed Content-Type), each counted. "
            "Non-trivial = an encoded octet or odd query under stripping, or a client forwarding header. TestVF_C13_Concurrent: 2-8 clients fetch "
            "large responses (5-300 kB, each made of its own byte, written in 1-16 flushed parts) from one target at the same time, 1-4 "
            "rounds; every client must receive exactly its own body. Distinct by plan hash.",
    "layers": [L("TestVF_C13", 1500, 20000), L("TestVF_C13_Concurrent", 150, 2000)],
    "technique": "property-based testing (rapid): generated raw requests/responses through the real server stack, round-trip equality oracle at the byte level",
    "level_text": "Bounded random exploration over a request/response grammar; the real net/http request parser, ReverseProxy and response writer are in the loop.",
    "level_note": "Domain: RFC 3986 request targets and RFC 9110 field values, prefix spelled literally by the client; go1.26.8 net/http (the project pins 1.24.2).",
}

CHECKS["C14"] = {
    "level": "exploration",
    "rule": "Layer 1 (TestVF_C14_Unit, exhaustive small scope): memory limit 0-6 x total limit {unlimited,1-8} x body length 0-10 "
            "(0-13 in the thorough tier) x EVERY composition of the length into write chunks x both constructors; oracle: bytes read "
            "back = bytes written, overflow <=> limit>0 and total>limit, bytes in memory <= limit after every write, spill file "
            "exists <=> spilled, temp directory empty after Close (idempotent). Layer 2 (TestVF_C14): generated end-to-end cases "
            "through the middlewares: request/response buffering on/off, limits at body size -1/=/+1, chunk schedules with pauses, "
            "endings success / 413 / 500 / target fault / client abort / event stream / upgrade; oracle on contact instants, exact "
            "bytes and an empty temp directory. Non-trivial = a chunk crossing the memory limit or an ending other than success. "
            "Distinct by case tuple / plan hash.",
    "layers": [L("TestVF_C14_Unit", 1, 1, shards=1, rapid=False, tenv={"VF_C14_MAXLEN": "13"}), L("TestVF_C14", 800, 8000)],
    "technique": "exhaustive small-scope enumeration of the buffer (every chunking of every length) + property-based testing (rapid) of the middlewares on a virtual clock",
    "level_text": "Layer 1 is a complete enumeration of the stated finite space; layer 2 is bounded random exploration with exact instants.",
    "level_note": "Private TMPDIR per process, so spill files cannot be confused with anything else.",
}

CHECKS["C15"] = {
    "level": "fault_enumeration",
    "rule": "sequences of 1-6 requests on one service, each with a fault drawn from 16 classes placed at the raw target (no listener, "
            "accept-and-close, close/reset after reading the request, garbage, partial status line, partial headers then close / stall / "
            "reset, silence, header block at target-timeout -50/-1/=/+1/+50 ms, full headers then close short of Content-Length / reset / "
            "partial chunk / no body byte), interleaved with healthy requests, connections kept alive or not, with and without "
            "request/response buffering and custom error pages (with and without a page for the status); oracle: well-formed 502/504 "
            "with the right page at exactly the fault's instant (504 exactly one target-timeout after the target had the request), or a "
            "visibly incomplete response; afterwards a healthy request succeeds, the in-flight table is empty and a pause's drain takes "
            "0 virtual time. Non-trivial = a fault placed after >=1 response byte of a complete header block, or a header block within "
            "1 ms of the target timeout. Distinct by plan hash.",
    "layers": [L("TestVF_C15", 1000, 12000)],
    "technique": "fault injection driven by property-based testing (rapid) on a virtual clock: generated fault sequences at a scripted raw target, exact-instant oracle",
    "level_text": "Enumeration of the listed fault points x configurations by random sampling with a fixed seed; every class appears hundreds of times per quick run (see labels).",
    "level_note": "The in-memory network stands in for TCP (refused / EOF / RST are modelled as errors of the same class); a dial that hangs is outside the listed classes (the transport has no dial timeout).",
}

CHECKS["C19"] = {
    "level": "exploration",
    "rule": "1-5 raw requests per case (6 methods, paths with encoded octets and multi-byte, 14 raw queries, 0-6 headers, own or generated "
            "request id, response sizes 0-100 kB, 5 statuses) each with a drawn ending: served, 404, held-then-504 by a paused service, "
            "stopped 503, https redirect, TLS refused, target reset (502), target silent (504), 413, response overflow (500), client "
            "abort (499), upgrade (101), event stream; 4 request and 4 response header lists to log (mixed case, absent headers); "
            "sent through Server.buildHandler() with the logger captured; oracle: exactly one 'Request' record per request, emitted "
            "after it ended, whose status / method / host / path / query / request id / service / target / resp_content_length / "
            "req_* / resp_* equal what the client and the target observed. Non-trivial = an ending other than 'served'. Distinct by plan hash.",
    "layers": [L("TestVF_C19", 800, 10000)],
    "technique": "property-based testing (rapid): generated requests x endings through the full middleware chain; join of captured log records with client and target observations",
    "level_text": "Bounded random exploration over endings x requests; the log is captured at slog level (the same records the JSON handler would print).",
    "level_note": "Trusts the harness world; HEAD requests and HTTP/2 are outside this check.",
}

CHECKS["C20"] = {
    "level": "exploration",
    "engine": "harness/cmd",
    "rule": "(a) TestVF_C20_RunOptions: complete table per run option (http-port, https-port, debug): flag absent / 2 values x "
            "KAMAL_PROXY_<NAME> absent / every valid / every malformed value x <NAME> likewise; oracle: flag > prefixed > bare > default, "
            "malformed => default, no cross-talk. (b) TestVF_C20_DeployValidation: complete table of the deploy flags involved in "
            "validation (tls absent/true/false x 0-2 hosts x 5 path-prefix shapes x max-request-body x buffer-requests absent/true/false "
            "x max-response-body x buffer-responses x forward-headers absent/true/false x certificate pair none/both/one x target "
            "present/absent); oracle: refusal exactly for the documented combinations and before the run step (which contacts the proxy), "
            "forward-headers default = not tls, bindings normalised as sent. (c) TestVF_C20_Binary: generated histories of client "
            "commands run as subprocesses of the built binary against a running `kamal-proxy run`; oracle: exit status != 0 exactly "
            "when the model says the proxy reports an error, `list` rows = the model's services. Non-trivial = a row where two sources "
            "disagree / a refused combination / a command with an error outcome. Distinct by case tuple or plan hash.",
    "layers": [L("TestVF_C20_RunOptions", 1, 1, shards=1, rapid=False, pkg="cmd"), L("TestVF_C20_DeployValidation", 1, 1, shards=1, rapid=False, pkg="cmd"),
               L("TestVF_C20_Binary", 40, 300, shards=8, pkg="cmd", binary=True),
               L("TestVF_C20_Args", 600, 6000, shards=8, pkg="cmd")],
    "technique": "exhaustive decision-table enumeration in package cmd + property-based testing (rapid) of command histories against the built binary",
    "level_text": "The two decision tables are enumerated completely; the binary layer is bounded random exploration.",
    "level_note": "In-process layers construct fresh cobra commands per case; the binary layer uses real loopback sockets and wall-clock waits as generous guards (a guard hit is inconclusive, never a violation).",
}

CHECKS["C02"] = {
    "level": "exploration",
    "rule": "1-3 successive redeploys of a running service (1-3 healthy targets each) with 1-6 client requests (service times 0-300 ms); "
            "every actor parks at the named program points (request: routed/entry, after the pause gate, claimed; deploy: before the table "
            "swap, before the drain; optionally the probe goroutine between state change and rotation update) and a controller, at each "
            "quiescent instant, draws who runs next / which request or deploy starts / a clock step from 5-60 generated choices "
            "(uniform or priority-based); oracle: every request ends 200 with its own echo from a target of a set that was current "
            "during its lifetime, never a proxy error. Cases steer around the listed known-finding shape in ~85% of runs (counted), "
            "the rest run free and hits of the listed signature are counted. Non-trivial = a request whose lifetime contains a table "
            "swap or a drain start. Distinct by plan hash.",
    "layers": [L("TestVF_C02", 1500, 20000, qenv={"GOMAXPROCS": "2"}, tenv={"GOMAXPROCS": "2"})],
    "technique": "schedule exploration by property-based testing (rapid): interleavings are generated data (recorded choices at named program points), shrunk and replayed",
    "level_text": "Bounded random exploration of interleavings at the granularity of the hook points (about 3 per request, 2 per deploy, 1 per probe completion).",
    "level_note": "Interleavings inside lock-protected regions or between two statements without a hook are not reached; trusts synctest and the harness world.",
}

CHECKS["C03"] = {
    "level": "exploration",
    "rule": "a service with 1-3 active and 0-2 rollout targets, 0-5 requests in flight (plain / upgraded / event stream; natural ends "
            "before the command, during the drain, at drain deadline -1 / = / +1 ms, far beyond it), a command from {redeploy, rollout "
            "redeploy, pause, stop} with a drain timeout from a grid, 0-4 late arrivals at drawn instants around the drain, optional "
            "resume, and in ~10% of cases one request parked between routing and claim across the command (the listed known-finding "
            "shapes, counted); oracle: at the command's return instant no drained target has an open request, in-flight requests that "
            "end before the deadline complete normally at their natural instant, those still running are cut off at exactly the "
            "deadline (504 / truncated stream), upgraded connections are closed at exactly the drain start, late and later traffic "
            "never reaches a drained target (until resume). Non-trivial = a drain with >=1 request in flight or >=1 late arrival. "
            "Distinct by plan hash.",
    "layers": [L("TestVF_C03", 1200, 15000), L("TestVF_C03_DrainAtomicity", 1500, 20000)],
    "technique": "property-based testing (rapid) on a virtual clock with exact-instant oracles from the fake targets' logs; known-finding interleavings injected through the schedule hooks",
    "level_text": "Bounded random exploration; deadlines are compared exactly, ties accepted either way.",
    "level_note": "Trusts synctest's clock, the in-memory network and the fake targets' logs.",
}
CHECKS["C17"]["layers"].append(L("TestVF_C17_Drain", 1200, 15000))
CHECKS["C17"]["layers"].append(L("TestVF_C17_Overlap", 1, 1, shards=1, rapid=False))
CHECKS["C10"]["layers"].append(L("TestVF_C10_Overlap", 1, 1, shards=1, rapid=False))
OVERLAP_RULE = (" Overlap layer (TestVF_%s_Overlap, exhaustive enumeration): every sequence of 2 or 3 commands on ONE service out of {deploy, rollout "
                "deploy, rollout set, rollout stop}, with and without a rollout in place, with every deploy-type command but the last as the one "
                "held at deploy.before-install or deploy.installed while the later ones run to completion (or none held), then "
                "released; oracle needs no model of who wins: once every command has returned and the proxy is quiet, %s. "
                "Non-trivial there = a command was really held while another ran.")
CHECKS["C17"]["rule"] += OVERLAP_RULE % ("C17", "exactly the targets the saved state names receive health probes (none without an owner, none owned but unprobed)")
CHECKS["C10"]["rule"] += OVERLAP_RULE % ("C10", "requests are answered by targets the service has, requests without the cookie by active ones, and the last `rollout set` / `rollout stop` to return decides whether cookie traffic goes to the rollout targets")
CHECKS["C17"]["rule"] += (" TestVF_C17_Drain: C03's scenarios (redeploy / rollout redeploy / pause / stop with in-flight, upgraded and late "
                          "requests) with the command's return instant compared exactly with max(start, latest natural end of a drained "
                          "in-flight request capped by the drain deadline).")

CHECKS["C07"] = {
    "level": "exploration",
    "rule": "timelines of 3-16 steps at drawn virtual instants (gaps 0/1/10/99/100/101/400 ms) over {request (plain, POST with body, "
            "health-check GET, POST on the health path, health-path look-alike), pause(max-pause 1/100/101/500/5000 ms), repeated pause, "
            "resume, stop(message), redeploy} on one service with 1-3 targets, through the full middleware chain; oracle: a model of "
            "each held request (released by the first of resume -> forwarded to the set current at that instant, stop -> 503 with the "
            "message, arrival + max-pause-at-arrival -> 504 at exactly that instant), exact end instants, POST bodies intact, "
            "health-check GETs 200 from the proxy, no target receipt at an instant where nothing may be forwarded; in ~10% of cases a "
            "request is parked after the pause gate while pause is issued (listed known-finding shape, counted). Non-trivial = >=2 "
            "held requests that end differently, or a held request that survives a redeploy. Distinct by plan hash.",
    "layers": [L("TestVF_C07", 1200, 15000)],
    "technique": "property-based testing (rapid) on a virtual clock against a reference model of held requests; known-finding interleavings injected through the schedule hooks",
    "level_text": "Bounded random exploration of timelines with exact-instant oracles; simultaneous events are ordered by the plan and separated by quiescence.",
    "level_note": "Trusts synctest's clock and the harness world.",
}

CHECKS["C12"] = {
    "level": "fault_enumeration",
    "rule": "histories of 0-4 setup commands and 2-8 groups of 1-3 overlapping commands on different services (deploy, redeploy, "
            "rollout deploy/set/stop, pause, stop, resume, remove; single failing commands of every error class); every command parks at "
            "EVERY step boundary of its snapshot write (list taken / temp file created / written and closed / renamed) and at each such "
            "instant the bytes a kill would leave are read back with an independent JSON reader (and, twice per case, a fresh router "
            "is really restored from a copy); overlapping commands are released in a generated order, so their snapshot steps "
            "interleave; oracle: the file is one complete snapshot of a configuration in force (any subset of the in-progress, "
            "commuting commands applied), and after all commands of a group returned it equals the model's configuration; no "
            "temporary file is left. Non-trivial = a crash point strictly inside a snapshot write. Distinct by plan hash. "
            "Second layer (TestVF_C12_Kill): the built binary is run for 1-3 incarnations over one state directory, each executing 1-6 "
            "generated client commands, and is killed with SIGKILL for real - by strace fault injection on entering the K-th openat / "
            "renameat / close / write / any file syscall of one of its threads (counted from the first command, or from exec to land in "
            "start-up and restore), or while idle; after each death the file is read back (complete JSON document, equal to the model "
            "before or after the command in flight, equal to the model in force when none was) and the next incarnation's `list` must "
            "show the same configuration. Non-trivial there = the kill landed while a command was in flight.",
    "layers": [L("TestVF_C12", 500, 6000, qtimeout=400), L("TestVF_C12_Kill", 12, 150, shards=16, qshards=8, pkg="cmd", binary=True)],
    "technique": "crash-point enumeration driven by property-based testing (rapid): every step boundary of every generated command's snapshot write, with generated interleavings of overlapping writers; plus real SIGKILLs of the built binary at generated syscall boundaries (strace fault injection) across restarts",
    "level_text": "Every step boundary of the snapshot write of every generated command is visited (enumeration inside each case); histories and interleavings are sampled. The process-kill layer samples kill instants at syscall granularity.",
    "level_note": "In-process layer: a killed process is modelled as 'the file as it is at a step boundary'. Process layer: real kills at syscall entry (needs ptrace; without it every case is counted as excluded and the layer decides nothing). Torn writes inside a single write(2), fsync and power loss are outside the statement.",
}

CHECKS["C18"] = {
    "level": "exploration",
    "rule": "3-10 goroutines, each running 3-12 generated operations at once against one router (all nine commands on three services, "
            "requests: plain / cookie / health path / slow / POST / upgraded connection, probe flaps, SNI lookups, waits), from a "
            "reachable starting state that in a quarter of the cases was restored from a state file; run under the race detector in a "
            "synctest bubble (virtual time keeps timeouts cheap); oracle: no race report, no panic (recovered or logged), no bubble "
            "deadlock, the proxy still lists and deploys afterwards. Race reports are identified by the pair of innermost kamal-proxy "
            "frames. TestVF_C18_Hostile: one command (deploy, rollout deploy, pause, stop, rollout set) issued in a generated reachable state "
            "with boundary argument values the CLI accepts (zero / negative durations and sizes, out-of-range percentages, hostile "
            "messages); oracle: no panic in any goroutine (the process survives), the command returns, requests still end. Non-trivial = at least two operations touched the same service. Distinct by plan hash.",
    "layers": [L("TestVF_C18", 150, 2500, race_always=True, crash_is_violation=True, qtimeout=600, ttimeout=1800, qenv={"GORACE": "halt_on_error=0"}, tenv={"GORACE": "halt_on_error=0"}),
               L("TestVF_C18_Hostile", 150, 2000, crash_is_violation=True, qtimeout=600, ttimeout=1800),
               L("TestVF_C18_LockStress", 4, 40, qshards=6, crash_is_violation=True, qtimeout=420, ttimeout=1800),
               L("TestVF_C18_ProbeVsCommand", 300, 3000, crash_is_violation=True, qtimeout=420, ttimeout=1800)],
    "rule_extra": " TestVF_C18_LockStress: 1-3 goroutines repeat pause / resume / stop on a service 200-800 times as fast as they can while "
                  "1-4 others keep setting / stopping the split, listing, redeploying and routing requests (no hooks, no virtual-time waits); "
                  "the case must end and leave a working proxy: a hang shows in the deadline's goroutine dump as goroutines blocked on sync "
                  "locks inside kamal-proxy frames (windows of a few dozen nanoseconds, e.g. a recursive read lock a writer slips into, "
                  "need this many repetitions). TestVF_C18_ProbeVsCommand: a probe result that flips a target's health is held at the hook "
                  "target.health-changed (state set, load balancer not yet told) while 1-3 commands that dispose, drain or re-read that target "
                  "run (remove, redeploy, rollout deploy / stop, pause, stop, resume, list, a request), then the probe goes on; everything must "
                  "end, nothing may panic, the proxy must still deploy afterwards.",
    "technique": "concurrency stress driven by property-based testing (rapid) under the Go race detector: generated operation lists on real goroutines, no gates",
    "level_text": "Bounded random exploration of overlapping operations; the race detector reports only pairs of accesses that were actually executed, so absence is never established.",
    "level_note": "Schedule is the Go scheduler's (not controlled, not replayable exactly); a replay re-runs the same operation lists up to 20 times.",
}



def F(test, thorough_s=45, quick_s=0):
    return {"test": test, "fuzz": True, "quick": {"checks": 0, "fuzztime": quick_s}, "thorough": {"checks": 0, "fuzztime": thorough_s}}


FUZZ_NOTE = (" Thorough tier additionally runs the native coverage-guided fuzzer (go test -fuzz, 16 workers, wall-clock budget) on %s: the same "
             "structured generators through rapid.MakeFuzz with the oracle inside the target; its executions are added to `evaluations` and "
             "reported separately (fuzz_execs, fuzz_new_interesting_inputs). Native fuzzing cannot be pinned to a seed: a saved failing input is the reproducible unit.")
for _pid, _t, _what in [("C04", "FuzzVF_C04_Route", "a bare routing table against the reference router"),
                        ("C08", "FuzzVF_C08_StopMessage", "the stop message rendered into the built-in and a custom 503 page"),
                        ("C10", "FuzzVF_C10_Cookie", "the rollout decision as a function of the Cookie header"),
                        ("C13", "FuzzVF_C13_Rewrite", "the outbound request line after prefix stripping"),
                        ("C14", "FuzzVF_C14_Buffer", "the buffer with sizes and limits beyond the exhaustive layer"),
                        ("C16", "FuzzVF_C16_Redirect", "the HTTPS redirect's Location")]:
    CHECKS[_pid]["layers"].append(F(_t))
    CHECKS[_pid]["rule"] += FUZZ_NOTE % _what
    CHECKS[_pid]["technique"] += "; native coverage-guided fuzzing (go test -fuzz) of the byte-level core in the thorough tier"

ALL_IDS = ["C%02d" % i for i in range(1, 21)]
NOT_APPLICABLE = {pid: "check not built yet (work in progress; see DESIGN.md section 8 for the order of work)" for pid in ALL_IDS if pid not in CHECKS}


# The operator's options must reach the proxy: for every property whose statement speaks of an operator-given option
# (a timeout, a message, a percentage, a limit, a header list), one layer executes the real client commands in-process
# against a fake proxy (net/rpc server on a unix socket recording method and arguments) - see harness/cmd/vf_c20_args_test.go.
ARGS_RULE = (" CLI layer (TestVF_%s_Args): generated command lines for the commands this property's options are given on, always "
             "with at least one of those options; executed by the real cobra commands and RPC client against a fake proxy; oracle: "
             "one call to the command's method, every flag given arrives in the argument field it is documented for with the value "
             "given, dropping one flag changes no other field, the command reports an error exactly when the proxy does. "
             "Non-trivial there = two or more flags, or an error answer.")
for _id in ("C01", "C03", "C07", "C08", "C09", "C10", "C13", "C14", "C15", "C16", "C17", "C19"):
    CHECKS[_id]["layers"].append(L("TestVF_%s_Args" % _id, 300, 4000, shards=4, pkg="cmd"))
    CHECKS[_id]["rule"] += ARGS_RULE % _id

CHECKS["C18"]["rule"] += CHECKS["C18"].pop("rule_extra")


# Additions of round 3 (appended to the rule texts the evidence carries).
CHECKS["C02"]["rule"] += (" In a fifth of the cases the service's target timeout is 5-100 ms and every request is an event stream that outlives it "
                          "(the target timeout bounds the wait for response headers only): such requests must still run to their end within the drain timeout.")
CHECKS["C03"]["rule"] += (" Round-3 shapes: targets of the drained set that fail their probes after the flights started (out of rotation, still busy, when the "
                          "command runs); earlier pause / stop / resume commands, so that the command under test is not the first of its kind; a target "
                          "timeout shorter than the drain timeout with streams and upgrades in flight.")
CHECKS["C04"]["rule"] += " The request matrix includes the absolute-form request line without a path (empty request path: the root prefix matches it)."
CHECKS["C05"]["rule"] += (" The racing deploys are held at a spin barrier just before they install (hook deploy.before-install, busy-waiting on one atomic flag) "
                          "and let go together, so their availability checks and installs contend within nanoseconds.")
CHECKS["C07"]["rule"] += (" Step `flip`: resume and, with nothing allowed to run in between, pause again, after up to 12 further held requests - the requests "
                          "held so far must be forwarded at that instant (a 503 there is the listed pause-gate finding, counted), later ones are held by the new pause.")
CHECKS["C09"]["rule"] += (" In a quarter of the cases the proxy is restarted from its state file right after the deploy and everything happens on the restored "
                          "proxy (targets presumed healthy until their first probe); in half of those the restoring goroutine is held at the hook "
                          "lb.mark-all-healthy until the bubble is idle.")
CHECKS["C15"]["rule"] += (" Clients reach the proxy through its own Server.startHTTPServers (the code's http.Server values) on the in-memory network; target "
                          "timeouts are drawn from 100 ms to 120 s (30 s is the CLI default).")
CHECKS["C16"]["rule"] += (" Final state (and the restarted proxy): real TLS handshakes against the proxy's own HTTPS server on the in-memory network for every SNI "
                          "name whose root service is not on automatic TLS - a bound name gets exactly the deployed certificate and a request over the "
                          "connection is forwarded, not redirected; every other name, and a hello without a name, fails the handshake.")

CHECKS["C06"]["layers"].append(L("TestVF_C06_SaveFault", 300, 4000))
CHECKS["C06"]["rule"] += (" Save-fault layer (TestVF_C06_SaveFault): after a generated history the state file's place is made unusable (directory removed, a "
                          "directory on the temporary file's name, a directory where the state file belongs) and one more model-valid command is issued; "
                          "oracle: what the command reports is true - an error means `list` and the routing matrix are as before it, success means they are "
                          "as the model says after it. Every case of that layer is non-trivial.")

CHECKS["C09"]["layers"].append(L("TestVF_C09_Simultaneous", 400, 4000, qshards=3))
CHECKS["C09"]["rule"] += (" Simultaneity layer (TestVF_C09_Simultaneous): 4-8 targets, 8-30 probe rounds in which a drawn subset answers 500 (all / none in a third "
                          "of the rounds), so several probe results flip targets at one virtual instant; the probe transport hands answers of one instant to the "
                          "proxy at the same real moment (spin rendezvous). After each round exactly the targets whose latest probe succeeded receive requests "
                          "(503 when none), and each of them does. Non-trivial there = two or more rounds in which at least two targets changed together.")

CHECKS["C13"]["rule"] += " Response framing also includes a chunked body followed by a trailer field, which must reach the client (as a trailer; among the headers when the response is buffered)."

# History layers (after round 5): one generated history, four aspects.
HIST_RULE = (" History layer (TestVF_%s_History): 1-14 generated commands on up to four services with the full option set (a sixth of them model-invalid and "
             "refused), a restart of the proxy from its state file after any of them (probability 1/6 each); then every running service is sent a fixed "
             "request suite (plain GET, a target that drops the connection, request and response bodies around every limit on the grid, targets answering "
             "just before and after every timeout on the grid) through the logging middleware. Oracle, against the model and not another proxy: %s "
             "decided by the options of the service's last successful deploy. Non-trivial there = a service observed after a redeploy or a restart.")
for _id, _what in (("C13", "the path (prefix stripped or not) and query the target sees, X-Forwarded-For and X-Forwarded-Proto as the forward-headers option says, are"),
                   ("C14", "413 exactly for request bodies over the request limit in force (buffering on), 500 exactly for response bodies over the response limit, full bodies otherwise, are"),
                   ("C15", "504 at exactly the response timeout in force for slower targets and 200 for faster ones, 502 for a dropped connection with the custom page exactly when the error-page directory in force has one, are"),
                   ("C19", "exactly one access-log record per request with the status, service, target, path, duration and client address of what happened, and the request / response headers asked for (none otherwise), are")):
    CHECKS[_id]["layers"].append(L("TestVF_%s_History" % _id, 300, 4000))
    CHECKS[_id]["rule"] += HIST_RULE % (_id, _what)
CHECKS["C11"]["rule"] += (" Compared as well: each proxy's own access-log record for every request of the behaviour suite, the answer to a target that drops the "
                          "connection (502 and its page), and - against the model - the probes the two proxies send in the 12 s after the continuation: each "
                          "target of each service gets them on the health path and at the interval of the service's options (count within one per stream).")

# Additions of rounds 5 and 6.
CHECKS["C01"]["rule"] += " Deploy timeouts go down to 50 ms, below the shortest health-check interval."
CHECKS["C03"]["rule"] += (" Flight kind upgrade-late: the handshake is in flight when draining begins and the target's 101 arrives half-way through the drain; the tunnel "
                          "must be closed by the time the command returns. In a third of the cases `list` is issued while the command drains and must answer without (virtual) time passing.")
CHECKS["C08"]["rule"] += " Health-check paths include one that needs percent-encoding on the wire (a space and a non-ASCII rune)."
CHECKS["C09"]["rule"] += (" In a fifth of the cases a rollout target is deployed, a split set, stopped and set again before anything else; in a third a second service is in place and one more "
                          "command on the first is refused (host conflict / dead target / dead rollout target): every target in place keeps its cadence to the end.")
CHECKS["C10"]["rule"] += (" History layer: a quarter of the rollout deploy / set / stop steps run while the service is paused with one request per cookie value held at the pause gate; "
                          "resumed after the command, each goes where the split in force at its release sends it.")
CHECKS["C11"]["rule"] += (" When the last-but-one command of the first history holds the snapshot lock at its listing, the last one is issued from a second goroutine meanwhile "
                          "and queues behind it (it must still write its own snapshot).")
CHECKS["C12"]["rule"] += (" Every start from a crash image is watched: should the start itself write the state file, the image must describe a configuration in force at every step of "
                          "that write as well. Kill layer: a quarter of the incarnations count their syscalls from exec, far enough to reach into a start-up that writes. "
                          "Stop messages include ESC, BEL, DEL, VT and astral-plane runes.")
CHECKS["C13"]["rule"] += (" A fifth of the cases have a 50 ms target timeout and a Content-Length body whose second half follows 10-400 ms after the first (delivered whole: the "
                          "timeout bounds the wait for headers); a third start from a prior deploy with the opposite target options, half of those with a rollout deploy in between.")
CHECKS["C14"]["rule"] += " Integration layer: prior deploy with other buffering options, optionally followed by a restart or a rollout deploy, before the deploy under test."
CHECKS["C15"]["rule"] += (" Faults held-then-close / -reset / -garbage: the target fails 200 ms after it had the request; in a third of the cases a pause or stop begins to drain the "
                          "target meanwhile (drain timeout 10 s): still 502 at that instant, and the command returns when the failed request ends. A quarter of the cases run on a proxy restarted from its state file.")
CHECKS["C17"]["rule"] += (" Drain layer: as C03's additions (late 101, `list` while draining). Structural stall detection in the deploy and drain layers: a case that has stood still for 40 s of "
                          "real time with nothing in the bubble runnable and a goroutine of the proxy queued on one of the proxy's locks (two looks, 2 s apart) is a command or request waiting "
                          "out another command's timer - violation `stalled-on-proxy-lock`. Overlap enumeration: `remove` is among the last commands.")
CHECKS["C18"]["rule"] += (" Operation `evict`: a pool target fails three probes; 1-3 requests per service meet the shrunken and then the regrown rotation (no panic, no lost answer).")
CHECKS["C19"]["rule"] += " A quarter of the cases run on a proxy restarted from its state file."
CHECKS["C20"]["rule"] += (" Decision table: --max-request-body 0 / --max-response-body 0 given explicitly. Binary layer: the proxy is killed and restarted between commands (list must still print "
                          "the model); a third of the cases begin with a TLS root service and a sub-path service on its host (TLS column follows the root); a sixth redeploy a service while a 3 s "
                          "request is in flight on the replaced target (--deploy-timeout 400ms --drain-timeout 10s): exit status 0 and the request completes.")

PROBE_HIST_RULE = (" Probe-history layer (TestVF_%s_History): the history generator of the other history layers (1-14 commands with the full option set, a sixth refused, restarts "
                   "from the state file anywhere); then the probes of the next 12 s are counted per target and health path. Oracle, by the model: %s Rollout targets that still "
                   "carry the options of an earlier deploy (the listed finding) are left out. Non-trivial there = at least one target in place.")
CHECKS["C09"]["layers"].append(L("TestVF_C09_History", 300, 4000))
CHECKS["C09"]["rule"] += PROBE_HIST_RULE % ("C09", "every target of every service in place gets at least one probe less than the interval of the options in force allows for, on the health path in force.")
CHECKS["C17"]["layers"].append(L("TestVF_C17_History", 300, 4000))
CHECKS["C17"]["rule"] += PROBE_HIST_RULE % ("C17", "no target gets more than the services in place send it (one more than the interval allows per stream) - in particular none for the targets of removed, replaced or refused deployments and of the proxy that ran before a restart.")

MATRIX_HIST_RULE = (" Matrix-history layer (TestVF_%s_History): the history generator of the other history layers (1-14 commands, full option set, a sixth refused, restarts from the "
                    "state file anywhere), then the request matrix of 9 hosts x 10 paths x both schemes through the server's own handler chain, every answer compared with the model: %s "
                    "Non-trivial there = at least one such cell with a service deployed.")
for _id, _what in (("C04", "the cells with the scheme the owning service lets through - which service (or nobody: 404) answers - and `list`."),
                   ("C08", "the cells of stopped services - 503 with the operator's message on the page in force (custom or built-in), 200 from the proxy on the health-check path."),
                   ("C16", "the cells with the other scheme - 301 when TLS and redirect are in force for the owning service (its own or its host's root service's), 503 for TLS to a service without it.")):
    CHECKS[_id]["layers"].append(L("TestVF_%s_History" % _id, 300, 4000))
    CHECKS[_id]["rule"] += MATRIX_HIST_RULE % (_id, _what)
