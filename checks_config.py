"""Per-property configuration of the driver: layers (test functions), budgets, evidence text."""


def L(test, quick, thorough, shards=16, **kw):
    d = {"test": test, "quick": {"checks": quick, "shards": 1}, "thorough": {"checks": thorough, "shards": shards}}
    d.update(kw)
    return d


CHECKS = {
    "C04": {
        "level": "exploration",
        "rule": "generated service tables (1-6 services over a colliding alphabet of host labels and path segments, wildcards, "
                "default host) deployed through the real DeployService in two orders (+detours, +restart) and a generated request "
                "matrix; oracle: reference router written from the statement. Non-trivial = the table has two services sharing a "
                "host level AND the matrix contains a boundary request (look-alike prefix, wildcard-vs-exact, exact level with no "
                "matching path, Host with port). Distinct by hash of the generated plan.",
        "layers": [L("TestVF_C04", 1500, 20000)],
        "technique": "property-based testing (rapid): generated routing tables and request matrices, differential against a reference router, metamorphic over command order / detours / restart",
        "level_text": "Bounded random exploration with shrinking: thousands of generated tables deployed through the real command path in several orders and compared request by request with an independent reference router. Finds any routing-rule deviation reachable with <=6 services over the colliding alphabet; does not establish absence.",
        "level_note": "Trusts the in-memory network and fake targets of the harness, go1.26.8's net/http, and the reference router (30 lines, written from the statement).",
        "assumptions": ["hosts are lower-case (the code does not case-fold and the statement does not say it does)",
                        "request paths start with '/'"],
    },
}

ALL_IDS = ["C%02d" % i for i in range(1, 21)]
NOT_APPLICABLE = {pid: "check not built yet (work in progress; see DESIGN.md section 8 for the order of work)" for pid in ALL_IDS if pid not in CHECKS}
