#!/usr/bin/env python3
"""Round 6 of the seeded changes: writes one prompt per property under /tmp/seed6 and adds one scratch worktree of /repo each.
The sub-agents get the property's text and their worktree - nothing from /verif."""
import json, os, subprocess
R='/tmp/seed6'
props=[json.loads(l) for l in open('/verif/properties.jsonl')]
T='''You are helping to evaluate a test suite's blind spots for a small Go project (kamal-proxy: an HTTP reverse proxy for zero-downtime deploys). Work ONLY inside the git worktree {R}/{id} (a checkout of the project) and write your results to {R}/out/{id}. Do not read or touch /repo or /verif or any other directory under {R} — your work must be independent.

Environment: offline sandbox. Before every go command: `export GOFLAGS=-mod=mod GOPROXY=off`. `cd {R}/{id} && go build ./... && go test ./...` works (takes a few seconds). One existing test, TestTarget_CancelledRequestsHaveStatus499, is known to be flaky (about 1 run in 15) — ignore failures of that one test only.

The project is supposed to satisfy this property:

  Property {id} — {title}
  Statement: {statement}
  It must hold: {quantifier}

Your task: produce TWO independent source changes (call them A and B, different from each other in mechanism and in the code they touch) to the non-test Go sources under {R}/{id}/internal/ or {R}/{id}/cmd/ that each BREAK this property, while the project still compiles and the existing test suite (`go test ./...`) still passes. Each change should look like a plausible programming slip or an innocent-looking refactoring, a few lines, and must need something specific in order to manifest, i.e. NOT something that ordinary use (or the existing tests) would expose at once. For this round, make change A one whose effect shows only through an INTERACTION OF TWO FEATURES OR OF TWO SERVICES that are each fine alone (for instance: TLS with path-mounted services, a rollout split with pause/stop, buffering with streaming or upgrades, custom error pages with TLS redirects, wildcard hosts with path prefixes, one service's deploy/remove/options affecting requests or state of ANOTHER service, several hosts or several path prefixes on one service, several targets in one deploy), and make change B one whose effect depends on WHEN something happens relative to something else (requests already in flight or arriving while a command runs, a probe result arriving during a command, a client that disconnects or is slow, a target that answers at the very moment of a timeout, two things at the same instant, a command issued while another is still running, something that happens between two steps of one command) - deterministic given the order, not a mere data race. Do not touch files named verif_on.go / verif_off.go and leave calls to verifPoint(...) / verifProxy(...) / verifListen(...) where they are (you may add code around them).

For each change X in {{A, B}}:
 1. Start from a clean tree (`git -C {R}/{id} checkout -- . && git -C {R}/{id} clean -fdq`), make the change, and save it as {R}/out/{id}/X/patch.diff (output of `git -C {R}/{id} diff`).
 2. Write a demonstration — preferably a Go test file (package server, placed in internal/server, or package cmd in internal/cmd) or else a small Go program — that FAILS with the change applied and PASSES on the clean tree. Save it as {R}/out/{id}/X/demo_test.go (or {R}/out/{id}/X/demo/ for a program) and say exactly how to run it. Verify both directions yourself (run it at least 3 times each way; if it depends on timing, make it reliable, e.g. by controlling ordering with channels or generous sleeps). The demo file is NOT part of patch.diff.
 3. Verify that with the change applied (and without your demo file) `go build ./...` succeeds and `go test ./...` passes (apart from the known flaky test).
 4. Write {R}/out/{id}/X/meta.json with keys: "property" ("{id}"), "summary" (one sentence: what the change does), "breaks" (how the property is violated, observable behaviour), "needs" (what is needed for it to manifest), "demo_cmd" (the exact command to run the demo from {R}/{id}, assuming the demo file has been copied into place), "files_changed".
Never use `git stash` (the stash is shared between worktrees); use `git diff > file` and `git apply` / `git apply -R` instead. Finish by restoring the clean tree (`git -C {R}/{id} checkout -- . && git -C {R}/{id} clean -fdq`). In your final answer give a short description of A and B and confirm what you verified.
'''
os.makedirs(R+'/out', exist_ok=True)
for p in props:
    i=p['id']; q=p['quantifier']
    open('%s/prompt_%s.txt'%(R,i),'w').write(T.format(R=R,id=i,title=p['title'],statement=p['statement'],quantifier=(q['text'] if isinstance(q,dict) else str(q))))
    os.makedirs('%s/out/%s'%(R,i), exist_ok=True)
    subprocess.run(['git','-C','/repo','worktree','add','-q','--detach','%s/%s'%(R,i),'HEAD'],check=True)
print('ok')
