#!/bin/bash
# Evaluates the seeded changes of one round of sub-agents:
#   ./seed_round_eval.sh <out-dir> <suffix for A> <suffix for B> C03 C04 ...     (e.g. /tmp/seed4/out G H C03)
cd "$(dirname "$0")"
out=$1; sa=$2; sb=$3; shift 3
mkdir -p /var/tmp/seed-round-logs
for id in "$@"; do
  for v in A:$sa B:$sb; do
    src=${v%%:*}; suf=${v##*:}
    if [ -f $out/$id/$src/patch.diff ]; then
      ./seed_eval.py $out/$id/$src $id-$suf > /var/tmp/seed-round-logs/$id-$suf.json 2>&1
      python3 - "$id-$suf" <<'P'
import json,sys
sid=sys.argv[1]
try:
    txt=open('/var/tmp/seed-round-logs/%s.json'%sid).read()
    r=json.loads(txt[txt.index('{'):])
    print(sid, 'confirmed=%s'%r.get('confirmed'), {k:(v['detected'],v['exit'],v['wall_s']) for k,v in r.get('verdicts',{}).items()}, (r.get('why') or '')[:300])
except Exception as e:
    print(sid, 'ERROR', e)
P
    fi
  done
done
