#!/usr/bin/env python3
"""Evaluates one seeded change produced by an independent sub-agent.

  ./seed_eval.py <src-dir> <seed-id> [--checks C02,C03] [--tier quick]

<src-dir> holds patch.diff, meta.json and the demonstration (demo_test.go or demo/).
Steps, all in a scratch worktree of /repo outside /repo and /verif:
  1. the patch applies to /repo's HEAD, the tree builds, the existing suite passes;
  2. the demonstration fails with the patch and passes without it;
then the registered checks are run against the patched scratch worktree (VERIF_REPO; evidence and replays
diverted to /var/tmp) and the worktree is removed. The result is written to seeded/<seed-id>/.
"""
import json, os, shutil, subprocess, sys, time

VERIF = os.path.dirname(os.path.abspath(__file__))
REPO = "/repo"
ENV = dict(os.environ, GOFLAGS="-mod=mod", GOPROXY="off")
FLAKY = ["TestTarget_CancelledRequestsHaveStatus499"]


def sh(cmd, cwd=None, env=None, timeout=1800):
    p = subprocess.run(cmd, shell=True, cwd=cwd, env=env or ENV, capture_output=True, text=True, timeout=timeout)
    return p.returncode, p.stdout + p.stderr


def suite_passes(wt):
    for attempt in range(3):
        rc, out = sh("go test -count=1 ./... 2>&1", cwd=wt)
        if rc == 0:
            return True, ""
        fails = [l for l in out.splitlines() if l.startswith("--- FAIL")]
        if fails and all(any(f in l for f in FLAKY) for l in fails):
            continue
        return False, out[-3000:]
    return True, "only the known flaky test failed"


def place_demo(src, wt):
    placed = []
    for f in os.listdir(src):
        if f.endswith("_test.go"):
            body = open(os.path.join(src, f)).read()
            pkg = "cmd" if "package cmd" in body.split("\n", 20)[0:20].__str__() else "server"
            dst = os.path.join(wt, "internal", pkg, "zz_seed_" + f)
            shutil.copy(os.path.join(src, f), dst)
            placed.append(dst)
    if os.path.isdir(os.path.join(src, "demo")):
        dst = os.path.join(wt, "zz_seed_demo")
        shutil.copytree(os.path.join(src, "demo"), dst)
        placed.append(dst)
    return placed


def run_demo(meta, src, wt):
    placed = place_demo(src, wt)
    cmd = meta.get("demo_cmd") or ""
    names = []
    for p in placed:
        if p.endswith("_test.go"):
            import re
            names += re.findall(r"func (Test\w+)\(", open(p).read())
    if names:
        pkg = "./internal/cmd" if "/internal/cmd/" in placed[0] else "./internal/server"
        tags = "-tags verif " if any("go:build verif" in open(q).read() for q in placed if q.endswith("_test.go")) else ""
        race = "-race " if "-race" in cmd else ""
        cmd = "go test %s%s-count=1 -run '^(%s)$' %s" % (race, tags, "|".join(names), pkg)
    elif not cmd:
        cmd = "go run ./zz_seed_demo"
    results = []
    for i in range(3):
        rc, out = sh(cmd + " 2>&1", cwd=wt, timeout=900)
        results.append(rc == 0)
    for p in placed:
        if os.path.isdir(p):
            shutil.rmtree(p)
        else:
            os.remove(p)
    return cmd, results, out[-1500:]


def main():
    src, sid = sys.argv[1], sys.argv[2]
    checks, tier = None, "quick"
    for i, a in enumerate(sys.argv):
        if a == "--checks":
            checks = sys.argv[i + 1].split(",")
        if a == "--tier":
            tier = sys.argv[i + 1]
    meta = json.load(open(os.path.join(src, "meta.json")))
    prop = meta.get("property", sid.split("-")[0])
    checks = checks or [prop]
    patch = os.path.abspath(os.path.join(src, "patch.diff"))
    rec = {"seed": sid, "property": prop, "summary": meta.get("summary"), "breaks": meta.get("breaks"), "needs": meta.get("needs"),
           "demo_cmd": meta.get("demo_cmd"), "ran": [], "verdicts": {}}
    wt = "/tmp/seedeval-%s" % sid
    sh("git -C %s worktree remove --force %s" % (REPO, wt))
    rc, out = sh("git -C %s worktree add -q --detach %s HEAD" % (REPO, wt))
    try:
        rc, out = sh("git apply --check %s" % patch, cwd=wt)
        if rc != 0:
            rec["confirmed"] = False
            rec["why"] = "patch does not apply to /repo HEAD: " + out[-500:]
            return finish(rec, src, sid)
        # demo on the clean tree
        cmd, clean, _ = run_demo(meta, src, wt)
        rec["ran"].append("clean tree: %s -> pass=%s" % (cmd, clean))
        sh("git apply %s" % patch, cwd=wt)
        rc, out = sh("go build ./... && go vet ./internal/... 2>&1 | head -5", cwd=wt)
        built = sh("go build ./...", cwd=wt)[0] == 0
        ok, why = suite_passes(wt)
        rec["ran"].append("patched tree: go build -> %s; go test ./... -> %s %s" % (built, ok, why[:300]))
        cmd, patched, tailout = run_demo(meta, src, wt)
        rec["ran"].append("patched tree: %s -> pass=%s" % (cmd, patched))
        rec["confirmed"] = built and ok and all(clean) and not any(patched)
        if not rec["confirmed"]:
            rec["why"] = "needs: builds, suite passes, demo passes 3/3 clean and fails 3/3 patched; got build=%s suite=%s clean=%s patched=%s; %s" % (built, ok, clean, patched, tailout[-600:])
        if rec.get("confirmed"):
            # run the registered checks against the patched scratch worktree (VERIF_REPO): /repo itself stays untouched,
            # so several seeds can be evaluated at once and alongside a background run
            sh("git checkout -- . && git clean -fdq && git apply %s" % patch, cwd=wt)
            env = dict(os.environ, VERIF_REPO=wt, VERIF_EVIDENCE_DIR="/var/tmp/vf-seed-evidence/" + sid, VERIF_REPLAY_DIR="/var/tmp/vf-seed-replays/" + sid)
            for c in checks:
                t0 = time.time()
                p = subprocess.run(["./check", c, "--tier", tier], cwd=VERIF, env=env, capture_output=True, text=True)
                viol = [l for l in p.stdout.splitlines() if l.startswith("VIOLATION")]
                first = [l for l in p.stdout.splitlines() if l.startswith("violation found") or l.startswith("race report") or "regression replay fails" in l]
                rec["verdicts"][c] = {"tier": tier, "exit": p.returncode, "detected": p.returncode == 1 and bool(viol), "wall_s": round(time.time() - t0, 1),
                                      "first": (first[0][:600] if first else "")}
                rec["ran"].append("patched scratch worktree: VERIF_REPO=<worktree> ./check %s --tier %s -> exit %d" % (c, tier, p.returncode))
            shutil.rmtree("/var/tmp/vf-seed-evidence/" + sid, ignore_errors=True)
    finally:
        sh("git -C %s worktree remove --force %s" % (REPO, wt))
        sh("git -C %s worktree prune" % REPO)
    return finish(rec, src, sid)


def finish(rec, src, sid):
    dst = os.path.join(VERIF, "seeded", sid)
    if rec.get("confirmed"):
        os.makedirs(dst, exist_ok=True)
        shutil.copy(os.path.join(src, "patch.diff"), os.path.join(dst, "patch.diff"))
        for f in os.listdir(src):
            if f.endswith("_test.go"):
                shutil.copy(os.path.join(src, f), os.path.join(dst, f + ".txt"))  # .txt: never compiled by accident
        if os.path.isdir(os.path.join(src, "demo")):
            shutil.copytree(os.path.join(src, "demo"), os.path.join(dst, "demo"), dirs_exist_ok=True)
        json.dump(rec, open(os.path.join(dst, "meta.json"), "w"), indent=1)
    print(json.dumps(rec, indent=1))
    return 0


if __name__ == "__main__":
    sys.exit(main())
