#!/bin/bash
# ./seedrun.sh <patch.diff> <ID> [tier]  - runs one check against a scratch worktree of /repo with the patch applied
# (VERIF_REPO; /repo itself is untouched; evidence and replays diverted). Optional env: VERIF_ONLY_LAYER.
cd "$(dirname "$0")"
patch=$(readlink -f "$1"); id=$2; tier=${3:-quick}
wt=/tmp/seedrun-$$
git -C /repo worktree add -q --detach $wt HEAD || exit 2
( cd $wt && git apply "$patch" ) || { git -C /repo worktree remove --force $wt; exit 2; }
VERIF_REPO=$wt VERIF_EVIDENCE_DIR=/var/tmp/seedrun-ev/$$ VERIF_REPLAY_DIR=/var/tmp/seedrun-rp/$$ ./check $id --tier $tier 2>&1 | grep -v "^KNOWN-FINDING" | cut -c1-900 | tail -${TAIL:-8}
rc=${PIPESTATUS[0]}
git -C /repo worktree remove --force $wt; git -C /repo worktree prune
rm -rf /var/tmp/seedrun-ev/$$ /var/tmp/seedrun-rp/$$
exit $rc
